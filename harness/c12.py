"""C12 — mixture bookkeeping: percentages sum to 100 and masses are consistent."""
import itertools
import random
import warnings
from fractions import Fraction

import gbigsmiles
from gbigsmiles.system import _estimate_system_molecular_weight

from lib import Check, close, frac, unfrac

SMI = ["CC", "CCC", "CCCC", "CCO", "CN"]


def classify(specs, M):
    """exact linear-algebra classifier (the property's reading): ('det', M0, rel, abs) | ('under',) | ('contra',)
    specs: list of ('pct', p) | ('abs', a) | ('none',); all values Fractions"""
    R = [(i, s[1]) for i, s in enumerate(specs) if s[0] == "pct"]
    A = [(i, s[1]) for i, s in enumerate(specs) if s[0] == "abs"]
    U = [i for i, s in enumerate(specs) if s[0] == "none"]
    n = len(specs)
    for _, p in R:
        if p < 0 or p > 100:
            return ("contra",)
    for _, a in A:
        if a < 0:
            return ("contra",)
    if len(U) > 1:
        return ("under",)
    sumR = sum(p for _, p in R)
    sumA = sum(a for _, a in A)
    if M is not None:
        if M <= 0:
            return ("under",)
        rel = [None] * n
        for i, p in R:
            rel[i] = p
        for i, a in A:
            rel[i] = 100 * a / M
        known = sum(x for x in rel if x is not None)
        if U:
            rest = 100 - known
            if rest < 0:
                return ("contra",)
            rel[U[0]] = rest
        elif abs(known - 100) > Fraction(1, 10**6):
            return ("contra",)
        return ("det", M, rel, [r * M / 100 for r in rel])
    if U:
        if sumR > 100 + Fraction(1, 10**6):
            return ("contra",)
        return ("under",)
    if not A:
        if abs(sumR - 100) > Fraction(1, 10**6):
            return ("contra",)
        return ("under",)
    if not R:
        if sumA <= 0:
            return ("under",)
        return ("det", sumA, [100 * a / sumA for _, a in A], [a for _, a in A])
    if sumR >= 100 or sumA <= 0:
        return ("contra",)
    M0 = 100 * sumA / (100 - sumR)
    rel = [None] * n
    for i, p in R:
        rel[i] = p
    for i, a in A:
        rel[i] = 100 * a / M0
    return ("det", M0, rel, [r * M0 / 100 for r in rel])


def spec_text(s):
    if s[0] == "pct":
        return f".|{float(s[1])!r}%|"
    if s[0] == "abs":
        return f".|{float(s[1])!r}|"
    return ""


def build(specs):
    mols = []
    for i, s in enumerate(specs):
        mols.append(gbigsmiles.Molecule(SMI[i % len(SMI)] + spec_text(s)))
    return mols


def mix_json(m):
    if m is None:
        return None
    return {"abs": None if m._absolute_mass is None else frac(m._absolute_mass),
            "rel": None if m._relative_mass is None else frac(m._relative_mass),
            "sys": None if m._system_mass is None else frac(m._system_mass)}


def gen_configs(rnd, quick):
    """all assignments of {abs, pct, none} to 1-5 components x value patterns x caller mass"""
    out = []
    kinds = ["abs", "pct", "none"]
    for n in range(1, 6):
        for shape in itertools.product(kinds, repeat=n):
            pats = ["consistent", "over", "under", "zero", "contra"]
            for pat in pats:
                for mmode in ["none", "right", "wrong"]:
                    if quick and rnd.random() > (0.35 if n >= 4 else 1.0):
                        continue
                    M0 = Fraction(rnd.choice([100, 500, 1000, 12345, 600000]))
                    cuts = sorted(rnd.sample(range(1, 100), n - 1)) if n > 1 else []
                    fr = [Fraction(b - a) for a, b in zip([0] + cuts, cuts + [100])]
                    specs = []
                    for k, f in zip(shape, fr):
                        if k == "pct":
                            specs.append(("pct", f))
                        elif k == "abs":
                            specs.append(("abs", f * M0 / 100))
                        else:
                            specs.append(("none",))
                    idx_p = [i for i, s in enumerate(specs) if s[0] == "pct"]
                    idx_a = [i for i, s in enumerate(specs) if s[0] == "abs"]
                    if pat == "over" and idx_p:
                        i = rnd.choice(idx_p)
                        specs[i] = ("pct", min(Fraction(100), specs[i][1] + rnd.choice([5, 30, 60])))
                    elif pat == "under" and idx_p:
                        i = rnd.choice(idx_p)
                        specs[i] = ("pct", specs[i][1] / 2)
                    elif pat == "zero":
                        i = rnd.randrange(n)
                        if specs[i][0] != "none":
                            specs[i] = (specs[i][0], Fraction(0))
                    elif pat == "contra" and idx_a:
                        i = rnd.choice(idx_a)
                        specs[i] = ("abs", specs[i][1] * rnd.choice([2, 3]) + 7)
                    M = None if mmode == "none" else (M0 if mmode == "right" else M0 * rnd.choice([2, 3]) + 11)
                    # values must be exactly representable as floats for an exact comparison: round to binary64
                    specs = [(s[0], Fraction(float(s[1]))) if s[0] != "none" else s for s in specs]
                    M = None if M is None else Fraction(float(M))
                    out.append((specs, M, pat, mmode))
    return out


def main():
    ck = Check("C12")
    ck.do_build()
    rnd = random.Random(ck.seed + 12)
    quick = ck.tier == "quick"
    cfgs = gen_configs(rnd, quick)
    if not quick:
        for _ in range(9):
            cfgs += gen_configs(rnd, False)
    ops, impls = [], []
    for specs, M, pat, mmode in cfgs:
        mols = build(specs)
        before = [mix_json(m.mixture) for m in mols]
        err = None
        gen = None
        with warnings.catch_warnings():
            warnings.simplefilter("ignore")
            try:
                gen = bool(_estimate_system_molecular_weight(mols, None if M is None else float(M)))
            except Exception as exc:
                err = exc
        impls.append((gen, err, mols))
        ops.append({"op": "ESTIM", "ms": before, "M": None if M is None else frac(float(M))})
    outs = ck.driver.run(ops)
    for (specs, M, pat, mmode), (gen, err, mols), out in zip(cfgs, impls, outs):
        inp = {"specs": [[s[0]] + ([float(s[1])] if len(s) > 1 else []) for s in specs], "system_mass": None if M is None else float(M)}
        shape = "".join(s[0][0] for s in specs)
        ck.case((tuple(specs), M), nontrivial=True, sample=inp)
        ck.count(f"pattern:{pat}/{mmode}")
        # ---- correspondence
        if err is not None:
            if out.get("ok"):
                ck.mismatch("ESTIM", inp, f"raises {type(err).__name__}: {err}", out)
            ck.count("impl:error:" + type(err).__name__)
        else:
            if not out.get("ok") or out.get("gen") != gen:
                ck.mismatch("ESTIM", inp, {"generable": gen}, out)
            else:
                for m, mm in zip(mols, out["ms"]):
                    a = mix_json(m.mixture)
                    if (a is None) != (mm is None):
                        ck.mismatch("ESTIM.mixture", inp, a, mm)
                        break
                    if a is None:
                        continue
                    bad = False
                    for k in ("abs", "rel", "sys"):
                        if (a[k] is None) != (mm[k] is None) or (a[k] is not None and not close(unfrac(a[k]), unfrac(mm[k]))):
                            bad = True
                    if bad:
                        ck.mismatch("ESTIM.mixture", inp, a, mm)
                        break
            ck.count("impl:generable" if gen else "impl:not-generable")
        # ---- oracle: the property against the classifier
        cl = classify(specs, M)
        ck.count("classifier:" + cl[0])
        positive = all(len(sp) == 1 or sp[1] > 0 for sp in specs) and (M is None or M > 0)
        if not positive:
            # the property quantifies over positive values; zeros are covered by the correspondence only
            ck.count("outside-domain(zero value)")
            continue
        if cl[0] == "det":
            _, M0, rel, ab = cl
            if err is not None:
                ck.fail("determined-but-error", inp, f"{type(err).__name__}: {err}")
            elif not gen:
                # the recorded finding is the refusal the MODEL reproduces (incomplete inference of the pinned tree); a refusal where the
                # model derives the masses is a new violation
                model_refuses = bool(out.get("ok")) and out.get("gen") is False
                ck.fail("determined-but-refused", inp, f"unique solution M={float(M0)} rel={[float(x) for x in rel]} but reported not generable",
                        "determined-but-refused" if model_refuses else None)
            else:
                ok = True
                for i, m in enumerate(mols):
                    mx = m.mixture
                    if mx is None or mx.relative_mass is None or mx.absolute_mass is None or mx.system_mass is None:
                        ok = False
                        break
                    if not (close(mx.relative_mass, rel[i], 1e-6) and close(mx.absolute_mass, ab[i], 1e-6, 1e-9) and close(mx.system_mass, M0, 1e-6)):
                        ok = False
                if not ok:
                    ck.fail("wrong-masses", inp, f"expected M={float(M0)} rel={[float(x) for x in rel]}; got "
                            f"{[(m.mixture.relative_mass, m.mixture.absolute_mass, m.mixture.system_mass) if m.mixture else None for m in mols]}")
        elif cl[0] == "under":
            if err is not None:
                ck.note(f"under-determined specification answered with {type(err).__name__} instead of 'not generable': {inp}")
            elif gen:
                ck.fail("underdetermined-but-generable", inp, "no system mass can be derived, yet reported generable")
        else:
            if err is None and gen:
                tot = sum(m.mixture.relative_mass for m in mols if m.mixture and m.mixture.relative_mass is not None)
                cls = "caller-mass-vs-mixed-specs" if (M is not None and any(s[0] == "abs" for s in specs) and any(s[0] != "abs" for s in specs)) else None
                ck.fail("contradictory-but-accepted", inp, f"contradictory specification accepted; percentages now sum to {tot}", cls)
            elif err is None:
                ck.note(f"contradictory specification reported as not generable instead of rejected: {inp}") if False else None
                ck.count("contradictory-reported-not-generable")
    # ---- print / re-parse keeps the masses (end to end through System)
    n_sys = 0
    for specs, M, pat, mmode in cfgs[:: (7 if quick else 3)]:
        if any(s[0] == "none" for s in specs[:-1]):
            continue
        text = "".join(SMI[i % len(SMI)] + spec_text(s) for i, s in enumerate(specs))
        with warnings.catch_warnings():
            warnings.simplefilter("ignore")
            try:
                if classify(specs, M)[0] != "det" or not all(len(sp) == 1 or sp[1] > 0 for sp in specs):
                    continue
                sy = gbigsmiles.System(text, None if M is None else float(M))
                if not sy.generable:
                    continue
                sy2 = gbigsmiles.System(str(sy))
            except Exception:
                continue
        n_sys += 1
        a = [(m.mixture.absolute_mass, m.mixture.relative_mass) for m in sy._molecules]
        b = [(m.mixture.absolute_mass, m.mixture.relative_mass) for m in sy2._molecules]
        if not sy2.generable or len(a) != len(b) or not all(close(x[0], y[0], 1e-9) and close(x[1], y[1], 1e-9) for x, y in zip(a, b)):
            ck.fail("print-reparse-changes-masses", {"text": text, "system_mass": None if M is None else float(M)}, f"{a} -> {str(sy)} -> {b}")
    ck.count("print_reparse_systems", n_sys)
    # ---- trace and astronomic scales (Python prints floats below 1e-4 and from 1e16 on with a signed exponent): systems with ONE source for
    # the system mass (all components absolute, or percentages + caller mass), so that no tolerance of the consistency checks is involved
    for _ in range(12 if quick else 200):
        n = rnd.randint(1, 4)
        scale = rnd.choice([1e-5, 1e-5, 2.5e-7, 1e16, 3e17, 1.0])
        if rnd.random() < 0.6:
            vals = [float(rnd.randint(1, 90)) * scale for _ in range(n)]
            text = "".join(SMI[i % len(SMI)] + f".|{v!r}|" for i, v in enumerate(vals))
            M, want_abs = None, vals
        else:
            cuts = sorted(rnd.sample(range(1, 100), n - 1)) if n > 1 else []
            fr = [float(b - a) for a, b in zip([0] + cuts, cuts + [100])]
            M = float(rnd.randint(1, 9)) * scale
            text = "".join(SMI[i % len(SMI)] + f".|{f!r}%|" for i, f in enumerate(fr))
            want_abs = [f / 100 * M for f in fr]
        inp = {"text": text, "system_mass": M}
        ck.evaluations += 1
        ck.count("extreme-scale-systems")
        with warnings.catch_warnings():
            warnings.simplefilter("ignore")
            try:
                sy = gbigsmiles.System(text, M)
                gen = bool(sy.generable)
            except Exception as exc:
                ck.fail("determined-but-error", inp, f"{type(exc).__name__}: {exc}")
                continue
            if not gen:
                ck.fail("determined-but-refused", inp, "one source for the system mass, all values positive, yet reported not generable")
                continue
            got = [m.mixture.absolute_mass for m in sy._molecules]
            if not all(g is not None and close(g, w, 1e-9, 0.0) for g, w in zip(got, want_abs)):
                ck.fail("wrong-masses", inp, f"expected absolute masses {want_abs}, got {got}")
                continue
            try:
                sy2 = gbigsmiles.System(str(sy))
                got2 = [m.mixture.absolute_mass for m in sy2._molecules] if sy2.generable else None
            except Exception as exc:
                got2 = f"{type(exc).__name__}: {exc}"
            if not isinstance(got2, list) or not all(g is not None and close(g, w, 1e-9, 0.0) for g, w in zip(got2, want_abs)):
                ck.fail("print-reparse-changes-masses", inp, f"{str(sy)} -> {got2}")
    ck.exhaustive = not quick
    ck.rule = ("all 363 assignments of {absolute, percent, unspecified} to 1-5 components x value patterns {consistent, over-100, under-100, zero, "
               "contradictory} x caller mass {absent, right, wrong} (quick: sub-sampled for 4-5 components); one case = one configuration; distinct by values")
    ck.finish()


if __name__ == "__main__":
    main()
