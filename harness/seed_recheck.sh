#!/bin/bash
# usage: seed_recheck.sh <name under /verif/seeded> <property id> [more property ids]
# re-applies a kept seeded change to /repo, runs the demo and the checks, undoes it; appends to the seed's run.log
set -u
name="$1"; shift
dst=/verif/seeded/$name
cd /verif
if [ -n "$(git -C /repo status --porcelain -- src)" ]; then echo "refusing: /repo has uncommitted changes under src (they would be lost)"; exit 2; fi
git -C /repo apply "$dst/patch.diff" || { echo "patch does not apply"; exit 2; }
echo "--- recheck $(date -u +%FT%TZ) at /verif $(git -C /verif log --format=%h -1), /repo $(git -C /repo log --format=%h -1)" | tee -a "$dst/run.log"
(cd /repo && PYTHONPATH=/repo/src timeout 600 /venv/bin/python "$dst/demo.py" > "$dst/demo_with.log" 2>&1; echo "demo_with_exit=$?" ) | tee -a "$dst/run.log"
for p in "$@"; do
  out=$(./check "$p" --tier quick 2>&1 | tail -3)
  echo "check $p: $(echo "$out" | grep -c VIOLATION) violation line(s): $(echo "$out" | tail -1 | cut -c1-200)" | tee -a "$dst/run.log"
  echo "$out" | grep VIOLATION | head -1 >> "$dst/run.log"
done
git -C /repo checkout -- .
git -C /repo status --short | head -3
