#!/bin/bash
# usage: seed_confirm.sh <agent worktree>   -- re-runs, in the agent's scratch worktree, the full suite with the change applied and the demo both ways
set -u
wt="$1"; cd "$wt" || exit 2
out=_seed/confirm.log; : > $out
export PYTHONPATH="$wt/src"
/venv/bin/python -c "import gbigsmiles;print('import path', gbigsmiles.__file__)" >> $out 2>&1
git diff --stat -- src >> $out
timeout 900 /venv/bin/python _seed/demo.py > _seed/demo_with.log 2>&1; echo "demo_with_exit=$?" >> $out
# (not `git stash`: the stash is shared by all worktrees of a repository)
git diff -- src > _seed/.confirm.patch
git apply -R _seed/.confirm.patch
timeout 900 /venv/bin/python _seed/demo.py > _seed/demo_without.log 2>&1; echo "demo_without_exit=$?" >> $out
git apply _seed/.confirm.patch
cmp -s <(git diff -- src) _seed/.confirm.patch && echo "change restored" >> $out
git diff --stat -- src | tail -1 >> $out
timeout 3000 /venv/bin/python -m pytest -q -p no:cacheprovider --timeout=900 -x -q tests 2>&1 | tail -5 >> $out
echo "suite_done" >> $out
