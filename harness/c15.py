"""C15 — ill-formed notation and misuse are rejected, never silently reinterpreted; parsing terminates."""
import random
import warnings

import numpy as np

import gbigsmiles

import gen
import parsecases
from lib import Check
from parsedump import Diverged, impl_parse, parse_op

ALPHABET = list("CNOSPFIclnos()[]{}<>$|,;.=#-:%0123456789e+ ") + ["Cl", "Br", "[H]", "[Si]", ".|", "|.", "gauss", "uniform("]


def breakers(rnd, m):
    """(operator name, broken string) for one valid molecule AST: exactly one structural rule violated"""
    text = m.text()
    out = []
    sts = [e for e in m.elems if isinstance(e, gen.StochT)]
    toks = [t for e in sts for t in e.repeats + e.ends]
    # unbalanced branch
    # (parentheses of tokens only: positions outside every |...| segment)
    import re
    outside = [True] * len(text)
    for mm in re.finditer(r"\|[^|]*\|", text):
        for k in range(mm.start(), mm.end()):
            outside[k] = False
    opens = [k for k, c in enumerate(text) if c == "(" and outside[k]]
    closes = [k for k, c in enumerate(text) if c == ")" and outside[k]]
    if opens:
        i = rnd.choice(opens)
        out.append(("unbalanced-open", text[:i] + text[i + 1:]))
    if closes:
        i = rnd.choice(closes)
        out.append(("unbalanced-close", text[:i] + text[i + 1:]))
    # unclosed bracket: remove the ']' of a bracket atom
    import re
    br = [mm for mm in re.finditer(r"\[(Si|N\+|O-|13C|C@H|SiH2|NH\+|H)\]", text)]
    if br:
        mm = rnd.choice(br)
        out.append(("unclosed-bracket", text[:mm.end() - 1] + text[mm.end():]))
    # descriptor between two atoms: insert an atom directly after a descriptor that is followed by ')' or a separator
    dpos = [mm for mm in re.finditer(r"\[[$<>][0-9]*(\|[^|\]]*\|)?\]", text)]
    inner = [mm for mm in dpos if mm.start() > 0 and text[mm.start() - 1] not in "{,; \t}" and mm.end() < len(text) and text[mm.end()] in "),; \t"]
    if inner:
        mm = rnd.choice(inner)
        out.append(("descriptor-between-two-atoms", text[:mm.end()] + "C" + text[mm.end():]))
    # unknown descriptor symbol
    if dpos:
        mm = rnd.choice(dpos)
        out.append(("unknown-descriptor-symbol", text[:mm.start() + 1] + rnd.choice("!?&~") + text[mm.start() + 2:]))
    # unknown distribution name
    for name in ("gauss", "uniform", "schulz_zimm", "log_normal", "poisson", "flory_schulz"):
        if name + "(" in text:
            out.append(("unknown-distribution", text.replace(name + "(", rnd.choice(["gamma", "normal", "weibull", "gaus", "uni_form"]) + "(", 1)))
            # an unknown name that CONTAINS the known one (as a suffix, as a prefix, in the middle): still not a known distribution
            out.append(("unknown-distribution", text.replace(name + "(", rnd.choice(["trunc_", "x", "inverse_", "my", "log"]) + name + "(", 1)))
            out.append(("unknown-distribution", text.replace(name + "(", name + rnd.choice(["ian", "2", "_x", "s"]) + "(", 1)))
            break
    # transition list of the wrong length
    lists = [mm for mm in dpos if mm.group(1) and len(mm.group(1).strip("|").split()) > 1]
    if lists:
        mm = rnd.choice(lists)
        body = mm.group(1).strip("|").split()
        nb = body[:-1] if rnd.random() < 0.5 and len(body) > 2 else body + ["1"]
        out.append(("transition-list-length", text[:mm.start(1)] + "|" + " ".join(nb) + "|" + text[mm.end(1):]))
    # text after a mixture specifier (molecule level)
    out.append(("text-after-mixture", text + ".|50%|" + rnd.choice(["CC", "C", "O ", "F\n", "[H]", " C", "C\t", "N"])))
    out.append(("percentage-out-of-range", text + ".|%s%%|" % rnd.choice(["101", "-3", "250.5"])))
    out.append(("negative-absolute-mass", text + ".|-%s|" % rnd.choice(["5", "1e3", "0.5"])))
    return out


def main():
    ck = Check("C15")
    ck.do_build()
    rnd = random.Random(ck.seed + 15)
    quick = ck.tier == "quick"
    cases = []   # (kind, text, operator or None)
    mols = parsecases.molecule_cases(rnd, 250 if quick else 8000)
    for m in mols:
        for op, broken in breakers(rnd, m):
            cases.append(("mol", broken, op))
    # byte-level mutations of valid strings (termination, agreement on accept / reject)
    valid = [m.text() for m in mols] + [s for s in parsecases.corpus_strings()]
    for _ in range(1500 if quick else 80000):
        s = rnd.choice(valid)
        for _k in range(rnd.randint(1, 3)):
            i = rnd.randrange(len(s) + 1)
            r = rnd.random()
            if r < 0.3 and s:
                s = s[:i] + s[i + 1:]
            elif r < 0.5 and s:
                s = s[:i] + s[i:i + 1] * 2 + s[i + 1:]
            elif r < 0.7 and len(s) > 1:
                j = min(len(s) - 1, i)
                s = s[:j - 1] + s[j:j + 1] + s[j - 1:j] + s[j + 1:] if j > 0 else s
            else:
                s = s[:i] + rnd.choice(ALPHABET) + s[i:]
        cases.append((rnd.choice(["mol", "system", "system"]), s, None))
    # the documented divergence inputs
    for s in ["CC.|50", "CC.|", "CC.|50%|CCC.|3"]:
        cases.append(("system", s, "unterminated-mixture-specifier"))
    ops = [parse_op(k, t) for k, t, _ in cases]
    try:
        outs = ck.driver.run(ops)
    except RuntimeError as exc:
        ck.mismatch("driver", "PARSE batch", "n/a", str(exc))
        outs = [None] * len(cases)
    for (kind, text, op), out in zip(cases, outs):
        dump, err = impl_parse(kind, text, limit=3)
        inp = {"kind": kind, "text": text, "operator": op}
        ck.case((kind, text), nontrivial=op is not None, sample=inp if op is not None else None)
        ck.count("operator:" + (op or "byte-mutation"))
        if isinstance(err, Diverged):
            ck.fail("parsing-does-not-terminate", inp, str(err), "unterminated-mixture-specifier" if ".|" in text else None)
            if out is not None and out.get("err") != "diverge":
                ck.mismatch("PARSE", inp, "diverges", out)
            continue
        if op is not None and op != "unterminated-mixture-specifier":
            # the operator violated one rule: an object of different meaning must not come back
            if err is None:
                if op == "text-after-mixture" or op.startswith("percentage") or op.startswith("negative"):
                    ck.fail("ill-formed-accepted", inp, "accepted")
                elif op == "transition-list-length" or op.startswith("unknown") or op.startswith("unbalanced") or op == "unclosed-bracket" or op == "descriptor-between-two-atoms":
                    ck.fail("ill-formed-accepted", inp, "accepted")
            else:
                ck.count("rejected:" + type(err).__name__)
        if out is None:
            continue
        if "fail" in out:
            ck.mismatch("PARSE", inp, "run", out)
            continue
        if out.get("err") in ("nonFinite", "negativeId"):
            ck.count("outside-model-domain")
            continue
        if (err is None) != bool(out.get("ok")):
            if err is not None and out.get("ok"):
                ck.mismatch("PARSE.accept", inp, f"raises {type(err).__name__}: {str(err)[:80]}", "accepted")
            else:
                ck.mismatch("PARSE.accept", inp, "accepted", out)
    # misuse of generation
    misuse = [
        ("generate-not-generable", "{[][<]CC[>]; [<]O, [>]N []}", None),            # no distribution
        ("generate-negative-weight", "{[][<|-1|]CC[>]; [<]O, [>]N []}|uniform(10, 50)|", None),
        ("missing-prefix", "{[<][<]CC[>]; [>]N []}|uniform(10, 50)|", None),
        ("prefix-mismatch", "{[<][<]CC[>]; [>]N []}|uniform(10, 50)|", "C[>]"),
        ("prefix-mismatch-id", "{[<1][<1]CC[>1]; [>1]N []}|uniform(10, 50)|", "C[<]"),
        ("prefix-two-open", "{[<][<]CC[>]; [>]N []}|uniform(10, 50)|", "[<]C[<]"),
        # objects with end groups for both directions: without the guard these would generate a molecule (nothing else stops them)
        ("prefix-mismatch-direction", "{[<][<]CC(C)[>]; [<][H], [>]N[]}|uniform(40, 60)|", "CC[>]"),
        ("prefix-mismatch-kind", "{[$][<]CC(C)[>]; [<][H], [>]N[]}|uniform(40, 60)|", "CC[>]"),
        ("prefix-mismatch-id-2", "{[>1][<]CC(C)[>]; [<][H], [>]N[]}|uniform(40, 60)|", "CC[>]"),
        ("prefix-mismatch-order", "{[>][<]CC(C)[>]; [<][H], [>]N[]}|uniform(40, 60)|", "CC=[>]"),
    ]
    for name, text, prefix in misuse:
        with warnings.catch_warnings():
            warnings.simplefilter("ignore")
            try:
                st = gbigsmiles.Stochastic(text, 0)
                pre = None
                if prefix is not None:
                    from gbigsmiles.mol_gen import MolGen
                    pre = MolGen(gbigsmiles.SmilesToken(prefix, 0, 0))
                st.generate(pre, np.random.default_rng(1))
                ck.fail("misuse-not-rejected", {"misuse": name, "text": text, "prefix": prefix}, "generation returned a molecule")
            except Exception as exc:
                ck.count("misuse-rejected:" + type(exc).__name__)
        ck.case(("misuse", name), nontrivial=True)
    # a prefix with NO open descriptor (a complete molecule) handed to the next element: token level, object level, and molecule strings in
    # which an element follows something that is already closed (the same guard, reached through Molecule.generate)
    from gbigsmiles.mol_gen import MolGen
    for name, make in [
        ("token-after-closed-prefix", lambda: gbigsmiles.SmilesToken("[$]CCO", 0, 0).generate(MolGen(gbigsmiles.SmilesToken("CC", 0, 0)), np.random.default_rng(1))),
        ("token-after-closed-prefix-2", lambda: gbigsmiles.SmilesToken("CCO", 0, 0).generate(MolGen(gbigsmiles.SmilesToken("CC", 0, 0)), np.random.default_rng(1))),
        ("object-after-closed-prefix", lambda: gbigsmiles.Stochastic("{[$][$]CC[$]; [$]N []}|uniform(10, 50)|", 0).generate(MolGen(gbigsmiles.SmilesToken("CC", 0, 0)), np.random.default_rng(1))),
        ("suffix-after-closed-object", lambda: gbigsmiles.Molecule("CC{[$][$]CC[$]; [$]C[]}|uniform(20, 40)|CCO").generate(rng=np.random.default_rng(1))),
        # two objects in a row whose terminals do not fit: the first leaves [>] open, the second one's left terminal asks for something else
        ("object-after-object-direction", lambda: gbigsmiles.Molecule("{[][<]CC[>]; [<][H], [>]O[<]}|uniform(40, 60)|{[<][<]CC(C)[>]; [<][H], [>]N[]}|uniform(40, 60)|").generate(rng=np.random.default_rng(1))),
        ("object-after-object-kind", lambda: gbigsmiles.Molecule("{[][<]CC[>]; [<][H], [>]O[<]}|uniform(40, 60)|{[$][<]CC(C)[>]; [<][H], [>]N[]}|uniform(40, 60)|").generate(rng=np.random.default_rng(2))),
        ("object-after-object-id", lambda: gbigsmiles.Molecule("{[][<]CC[>]; [<][H], [>]O[<]}|uniform(40, 60)|{[>1][<]CC(C)[>]; [<][H], [>]N[]}|uniform(40, 60)|").generate(rng=np.random.default_rng(3))),
        ("object-after-closed-object", lambda: gbigsmiles.Molecule("CC{[$][$]CC[$]; [$]C[]}|uniform(20, 40)|{[$][$]CO[$]; [$]N[]}|uniform(20, 40)|").generate(rng=np.random.default_rng(1))),
    ]:
        with warnings.catch_warnings():
            warnings.simplefilter("ignore")
            try:
                res = make()
                ck.fail("misuse-not-rejected", {"misuse": name}, f"a prefix that is closed or whose open descriptor differs from the left terminal was accepted; returned {getattr(res, 'smiles', res)}")
            except Exception as exc:
                ck.count("misuse-rejected:" + type(exc).__name__)
        ck.case(("misuse", name), nontrivial=True)
    ck.rule = ("every generated valid molecule x every breaking operator applicable to it (one rule violated at a random position), byte-level mutations of valid "
               "and documented strings (delete / duplicate / swap / insert) for termination and accept-reject agreement with the model, and the misuse calls of "
               "generation; non-trivial = operator cases; distinct by text")
    ck.extra["assumptions"] = ["a parse that does not return within 3 s counts as non-termination (the model's fuelled parser decides `diverge` exactly)"]
    ck.finish()


if __name__ == "__main__":
    main()
