#!/venv/bin/python
"""Translator: regenerates lean/GBS/Extracted.lean from /repo's *current* source.

Only the shapes listed in DESIGN.md section 2.2 are supported; anything else raises
`Unsupported`, which the check reports as a broken tie (never guessed at).

Extracted objects
  * `isCompatible`         <- BondDescriptor.is_compatible (bond.py)
  * `orderOfPrefix`        <- the bond-order if-chain of BondDescriptor.__init__
  * `stereoRejected`       <- the stereo rejection test of BondDescriptor.__init__
  * `compatSymbolOfText`   <- _create_compatible_bond_text's symbol choice
  * `singleLetterAtoms`, `doubleLetterAtoms` <- token.py tuples
  * `distDispatch`         <- get_distribution (ordered substring -> class name)
  * `atomicMasses`         <- chem_resource.atomic_masses (as exact decimals, Rat)
  * `chooseTrick`          <- the 'all weights equal -> +1' trick and normalisation of
                              choose_compatible_weight (shape-checked, see below)
  * `oplsRules`, `nbParams` <- data/opls.par, data/ffnonbonded.itp rows (C20 table)
  * `ffCacheStep`          <- get_assignment_class's comparison and assignments (forcefield_helper.py)
"""
import ast
import os
import sys
from fractions import Fraction

REPO = os.environ.get("GBS_REPO", "/repo")
SRC = os.path.join(REPO, "src", "gbigsmiles")


class Unsupported(Exception):
    pass


def _parse(name):
    with open(os.path.join(SRC, name)) as fh:
        return ast.parse(fh.read(), filename=name)


def _find_class(mod, name):
    for n in mod.body:
        if isinstance(n, ast.ClassDef) and n.name == name:
            return n
    raise Unsupported(f"class {name} not found")


def _find_func(body, name):
    for n in body:
        if isinstance(n, ast.FunctionDef) and n.name == name:
            return n
    raise Unsupported(f"function {name} not found")


# ----------------------------------------------------------------------------------------------
# is_compatible

_ATTR = {"bond_type": "order", "descriptor_id": "id", "descriptor": "sym"}
_SYMCONST = {"": "Sym.none", "$": "Sym.dollar", "<": "Sym.lt", ">": "Sym.gt"}


def _bexpr(e, names):
    """Translate a boolean expression over attributes of the two parameters (and local aliases of them)."""
    if isinstance(e, ast.BoolOp):
        op = " && " if isinstance(e.op, ast.And) else " || "
        return "(" + op.join(_bexpr(v, names) for v in e.values) + ")"
    if isinstance(e, ast.UnaryOp) and isinstance(e.op, ast.Not):
        return "(!" + _bexpr(e.operand, names) + ")"
    if isinstance(e, ast.Constant) and isinstance(e.value, bool):
        return "true" if e.value else "false"
    if isinstance(e, ast.IfExp):
        return f"(if {_bexpr(e.test, names)} then {_bexpr(e.body, names)} else {_bexpr(e.orelse, names)})"
    if isinstance(e, ast.Name) and e.id in names and isinstance(names[e.id], tuple) and names[e.id][1] == "bool":
        return names[e.id][0]
    if isinstance(e, ast.Compare) and len(e.ops) == 1 and isinstance(e.ops[0], (ast.In, ast.NotIn)):
        # x in ("<", ">")  ->  disjunction of equalities
        l, r = e.left, e.comparators[0]
        neg = isinstance(e.ops[0], ast.NotIn)
        if isinstance(l, ast.Name) and l.id in names and isinstance(names[l.id], tuple) and names[l.id][1] == "tuple":
            l = names[l.id][0]
        if isinstance(r, ast.Name) and r.id in names and isinstance(names[r.id], tuple) and names[r.id][1] == "tuple":
            r = names[r.id][0]
        if isinstance(l, ast.Constant) and isinstance(r, (ast.Tuple, ast.List)) and r.elts:
            # "" in (x, y)  ->  x == "" or y == ""
            alts = []
            for x in r.elts:
                xt, xk = _term(x, names)
                if xk == "const":
                    raise Unsupported("constant in a container of terms")
                alts.append(f"({xt} == {_const(l, xk)})")
            body = "(" + " || ".join(alts) + ")"
            return "(!" + body + ")" if neg else body
        if isinstance(l, ast.Tuple) and isinstance(r, (ast.Tuple, ast.List, ast.Set)) and \
                all(isinstance(x, ast.Tuple) and len(x.elts) == len(l.elts) and all(isinstance(c, ast.Constant) for c in x.elts) for x in r.elts):
            # (x, y) in (("$", "$"), ("<", ">"))  ->  disjunction of conjunctions
            terms = [_term(x, names) for x in l.elts]
            if any(k == "const" for _, k in terms):
                raise Unsupported("constant inside the tuple on the left of `in`")
            alts = ["(" + " && ".join(f"({t} == {_const(c, k)})" for (t, k), c in zip(terms, x.elts)) + ")" for x in r.elts]
            body = "(" + " || ".join(alts) + ")" if alts else "false"
            return "(!" + body + ")" if neg else body
        if not isinstance(r, (ast.Tuple, ast.List, ast.Set)) or not all(isinstance(x, ast.Constant) for x in r.elts):
            if isinstance(r, ast.Constant) and isinstance(r.value, str):
                # x in "<>"  is substring membership: for one-character / empty symbols that differs ("" in "<>" is True)
                raise Unsupported("membership in a string constant")
            raise Unsupported("membership in a non-literal container")
        lt, lk = _term(l, names)
        if lk == "const":
            raise Unsupported("constant on the left of `in`")
        alts = [f"({lt} == {_const(x, lk)})" for x in r.elts]
        body = "(" + " || ".join(alts) + ")" if alts else "false"
        return body if isinstance(e.ops[0], ast.In) else "(!" + body + ")"
    if isinstance(e, ast.Compare) and len(e.ops) == 1 and isinstance(e.ops[0], (ast.Eq, ast.NotEq)):
        op = " == " if isinstance(e.ops[0], ast.Eq) else " != "
        l, r = e.left, e.comparators[0]
        lt, lk = _term(l, names)
        rt, rk = _term(r, names)
        # constants take the type of the other side
        if lk == "const" and rk == "const":
            raise Unsupported("comparison of two constants")
        if lk == "const":
            lt = _const(l, rk)
        if rk == "const":
            rt = _const(r, lk)
        if lk != "const" and rk != "const" and lk != rk:
            raise Unsupported(f"comparison of different fields {lk} / {rk}")
        return "(" + lt + op + rt + ")"
    if isinstance(e, ast.Compare) and len(e.ops) > 1 and all(isinstance(o, (ast.Eq, ast.NotEq)) for o in e.ops):
        # a == b == c  ->  a == b and b == c
        parts = []
        left = e.left
        for o, c in zip(e.ops, e.comparators):
            parts.append(_bexpr(ast.Compare(left=left, ops=[o], comparators=[c]), names))
            left = c
        return "(" + " && ".join(parts) + ")"
    raise Unsupported("boolean expression " + ast.dump(e))


def _term(e, names):
    if isinstance(e, ast.Attribute) and isinstance(e.value, ast.Name) and e.value.id in names and isinstance(names[e.value.id], str):
        if e.attr not in _ATTR:
            raise Unsupported(f"attribute {e.attr}")
        f = _ATTR[e.attr]
        return f"{names[e.value.id]}.{f}", f
    if isinstance(e, ast.Name) and e.id in names and isinstance(names[e.id], tuple) and names[e.id][1] != "bool":
        return names[e.id]          # local alias of an attribute
    if isinstance(e, ast.Constant):
        return None, "const"
    raise Unsupported("term " + ast.dump(e))


def _const(e, kind):
    v = e.value
    if kind == "sym":
        if v not in _SYMCONST:
            raise Unsupported(f"symbol constant {v!r}")
        return _SYMCONST[v]
    if kind == "id":
        if v == "":
            return "(none : Option Nat)"
        if isinstance(v, int) and not isinstance(v, bool) and v >= 0:
            return f"(some {v} : Option Nat)"
    raise Unsupported(f"constant {v!r} for field {kind}")


def _bool_body(stmts, names):
    """`if c: return b` ... `return b`  ->  nested if-then-else; `x = self.attr` / `x = <bool expr>` are local aliases"""
    if not stmts:
        raise Unsupported("function may fall off its end (returns None)")
    s = stmts[0]
    if isinstance(s, ast.Expr) and isinstance(s.value, ast.Constant) and isinstance(s.value.value, str):
        return _bool_body(stmts[1:], names)  # docstring
    if isinstance(s, ast.Pass):
        return _bool_body(stmts[1:], names)
    if isinstance(s, ast.Assign) and len(s.targets) == 1 and isinstance(s.targets[0], ast.Name):
        tgt = s.targets[0].id
        if tgt in names and isinstance(names[tgt], str):
            raise Unsupported("assignment to a parameter")
        names = dict(names)
        if isinstance(s.value, ast.Tuple):
            names[tgt] = (s.value, "tuple")
            return _bool_body(stmts[1:], names)
        try:
            t = _term(s.value, names)
            if t[1] == "const":
                raise Unsupported("alias of a constant")
            names[tgt] = t
        except Unsupported:
            names[tgt] = (_bexpr(s.value, names), "bool")
        return _bool_body(stmts[1:], names)
    if isinstance(s, ast.Return):
        if s.value is None:
            raise Unsupported("bare return")
        return _bexpr(s.value, names)
    if isinstance(s, ast.If):
        then = _bool_body(list(s.body) + list(stmts[1:]), names)
        if s.orelse:
            # `else` branch that may fall through continues with the following statements
            els = _bool_body(list(s.orelse) + list(stmts[1:]), names)
        else:
            els = _bool_body(stmts[1:], names)
        return f"(if {_bexpr(s.test, names)} then {then} else\n  {els})"
    raise Unsupported("statement " + ast.dump(s)[:80])


def extract_is_compatible(mod):
    cls = _find_class(mod, "BondDescriptor")
    fn = _find_func(cls.body, "is_compatible")
    args = [a.arg for a in fn.args.args]
    if len(args) != 2:
        raise Unsupported("is_compatible must take (self, other)")
    names = {args[0]: "a", args[1]: "b"}
    body = _bool_body(fn.body, names)
    return ("/-- `BondDescriptor.is_compatible` (bond.py), translated statement by statement. -/\n"
            f"def isCompatible (a b : Desc) : Bool :=\n  {body}\n")


# ----------------------------------------------------------------------------------------------
# bond order chain and stereo rejection in BondDescriptor.__init__

_ORDER = {"UNSPECIFIED": "unspecified", "SINGLE": "single", "DOUBLE": "double", "TRIPLE": "triple",
          "QUADRUPLE": "quadruple", "ONEANDAHALF": "oneAndAHalf"}


def _is_self_attr(e, attr):
    return (isinstance(e, ast.Attribute) and isinstance(e.value, ast.Name)
            and e.value.id == "self" and e.attr == attr)


def _bondtype_const(e):
    # rc.BondType.X
    if isinstance(e, ast.Attribute) and isinstance(e.value, ast.Attribute) and e.value.attr == "BondType":
        if e.attr in _ORDER:
            return "Order." + _ORDER[e.attr]
    raise Unsupported("bond type constant " + ast.dump(e))


def _char_in_prefix(test):
    """`"c" in self.preceding_characters` -> c ; or-chains -> list of c"""
    if isinstance(test, ast.BoolOp) and isinstance(test.op, ast.Or):
        out = []
        for v in test.values:
            out += _char_in_prefix(v)
        return out
    if (isinstance(test, ast.Compare) and len(test.ops) == 1 and isinstance(test.ops[0], ast.In)
            and isinstance(test.left, ast.Constant) and isinstance(test.left.value, str)
            and len(test.left.value) == 1 and _is_self_attr(test.comparators[0], "preceding_characters")):
        return [test.left.value]
    raise Unsupported("prefix test " + ast.dump(test)[:100])


def _lean_char(c):
    return {"\\": "'\\\\'", "'": "'\\''"}.get(c, f"'{c}'")


def extract_order_chain(mod):
    cls = _find_class(mod, "BondDescriptor")
    init = _find_func(cls.body, "__init__")
    # locate the last unconditional `self.bond_type = rc.BondType.X` at top level followed by the if chain
    stmts = init.body
    start = None
    for i, s in enumerate(stmts):
        if (isinstance(s, ast.Assign) and len(s.targets) == 1 and _is_self_attr(s.targets[0], "bond_type")):
            start = i
    if start is None:
        raise Unsupported("no top-level assignment to self.bond_type")
    default = _bondtype_const(stmts[start].value)
    chain = []
    stereo = None
    for s in stmts[start + 1:]:
        if isinstance(s, ast.If) and not s.orelse and len(s.body) == 1:
            b = s.body[0]
            if isinstance(b, ast.Assign) and _is_self_attr(b.targets[0], "bond_type"):
                cs = _char_in_prefix(s.test)
                if len(cs) != 1:
                    raise Unsupported("or-chain in bond order test")
                chain.append((cs[0], _bondtype_const(b.value)))
                continue
            if isinstance(b, ast.Raise):
                if stereo is not None:
                    raise Unsupported("two raising tests after the bond order chain")
                stereo = _char_in_prefix(s.test)
                continue
        if isinstance(s, ast.Assign) and _is_self_attr(s.targets[0], "bond_stereo"):
            continue
        raise Unsupported("statement after bond-order chain: " + ast.dump(s)[:100])
    if stereo is None:
        stereo = []
    # the same attribute must not be assigned to preceding_characters *after* the chain start
    lines = ["/-- the bond order if-chain of `BondDescriptor.__init__` (last matching test wins). -/",
             "def orderOfPrefix (p : List Char) : Order :=",
             f"  let o := {default}"]
    for c, o in chain:
        lines.append(f"  let o := if p.contains {_lean_char(c)} then {o} else o")
    lines.append("  o")
    lines.append("")
    lines.append("/-- prefixes for which `BondDescriptor.__init__` raises \"Stereochemistry not implemented\". -/")
    lines.append("def stereoRejected (p : List Char) : Bool :=")
    lines.append("  " + (" || ".join(f"p.contains {_lean_char(c)}" for c in stereo) if stereo else "false"))
    lines.append("")
    lines.append("def orderChain : List (Char × Order) := ["
                 + ", ".join(f"({_lean_char(c)}, {o})" for c, o in chain) + "]")
    lines.append(f"def orderDefault : Order := {default}")
    return "\n".join(lines) + "\n"


def extract_compat_text(mod):
    fn = _find_func(mod.body, "_create_compatible_bond_text")
    # compatible_symbol = "$"; if "<" in str(bond): ... ; if ">" in str(bond): ...
    stmts = fn.body
    if not (isinstance(stmts[0], ast.Assign) and isinstance(stmts[0].value, ast.Constant)):
        raise Unsupported("_create_compatible_bond_text: first statement")
    default = stmts[0].value.value
    chain = []
    i = 1
    while i < len(stmts) and isinstance(stmts[i], ast.If):
        s = stmts[i]
        t = s.test
        ok = (isinstance(t, ast.Compare) and isinstance(t.ops[0], ast.In) and isinstance(t.left, ast.Constant)
              and isinstance(t.comparators[0], ast.Call) and getattr(t.comparators[0].func, "id", None) == "str"
              and len(s.body) == 1 and isinstance(s.body[0], ast.Assign)
              and isinstance(s.body[0].value, ast.Constant) and not s.orelse)
        if not ok:
            raise Unsupported("_create_compatible_bond_text: if shape")
        chain.append((t.left.value, s.body[0].value.value))
        i += 1
    rest = stmts[i:]
    if not (len(rest) == 2 and isinstance(rest[0], ast.Assign) and isinstance(rest[0].value, ast.JoinedStr)
            and isinstance(rest[1], ast.Return)):
        raise Unsupported("_create_compatible_bond_text: tail")
    parts = []
    for v in rest[0].value.values:
        if isinstance(v, ast.Constant):
            parts.append(("lit", v.value))
        elif isinstance(v, ast.FormattedValue):
            e = v.value
            if isinstance(e, ast.Name):
                parts.append(("sym", None))
            elif isinstance(e, ast.Attribute) and e.attr in ("preceding_characters", "descriptor_id"):
                parts.append((e.attr, None))
            else:
                raise Unsupported("_create_compatible_bond_text: f-string part")
    shape = [p[0] if p[0] != "lit" else "lit:" + p[1] for p in parts]
    if shape != ["preceding_characters", "lit:[", "sym", "descriptor_id", "lit:]"]:
        raise Unsupported(f"_create_compatible_bond_text: f-string shape {shape}")
    lines = ["/-- symbol chosen by `_create_compatible_bond_text` from the printed descriptor text. -/",
             "def compatSymbolOfText (s : List Char) : Char :=",
             f"  let c := {_lean_char(default)}"]
    for k, v in chain:
        lines.append(f"  let c := if s.contains {_lean_char(k)} then {_lean_char(v)} else c")
    lines.append("  c")
    return "\n".join(lines) + "\n"


# ----------------------------------------------------------------------------------------------
# token.py tuples, distribution dispatch

def extract_atom_tuples(mod):
    out = {}
    for n in mod.body:
        if isinstance(n, ast.Assign) and isinstance(n.targets[0], ast.Name):
            name = n.targets[0].id
            if name in ("_SMILES_DOUBLE_LETTER_ATOM", "_SMILES_SINGLE_LETTER_ATOM"):
                if not isinstance(n.value, ast.Tuple):
                    raise Unsupported(name + " is not a tuple literal")
                vals = [e.value for e in n.value.elts]
                out[name] = vals
    if len(out) != 2:
        raise Unsupported("atom tuples not found")
    for v in out["_SMILES_SINGLE_LETTER_ATOM"]:
        if len(v) != 1:
            raise Unsupported("single-letter atom tuple has a longer entry")
    for v in out["_SMILES_DOUBLE_LETTER_ATOM"]:
        if len(v) != 2:
            raise Unsupported("double-letter atom tuple entry of other length")
    s = "def singleLetterAtoms : List Char := [" + ", ".join(_lean_char(v) for v in out["_SMILES_SINGLE_LETTER_ATOM"]) + "]\n"
    s += "def doubleLetterAtoms : List (Char × Char) := [" + ", ".join(
        f"({_lean_char(v[0])}, {_lean_char(v[1])})" for v in out["_SMILES_DOUBLE_LETTER_ATOM"]) + "]\n"
    return s


_FAMILY = {"FlorySchulz": "florySchulz", "Gauss": "gauss", "Uniform": "uniform", "SchulzZimm": "schulzZimm",
           "LogNormal": "logNormal", "Poisson": "poisson"}


def extract_dist_dispatch(mod):
    fn = _find_func(mod.body, "get_distribution")
    arg = fn.args.args[0].arg
    chain = []
    for s in fn.body:
        if isinstance(s, ast.Expr) and isinstance(s.value, ast.Constant):
            continue
        if isinstance(s, ast.If):
            t = s.test
            ok = (isinstance(t, ast.Compare) and isinstance(t.ops[0], ast.In) and isinstance(t.left, ast.Constant)
                  and isinstance(t.comparators[0], ast.Name) and t.comparators[0].id == arg
                  and len(s.body) == 1 and isinstance(s.body[0], ast.Return)
                  and isinstance(s.body[0].value, ast.Call) and isinstance(s.body[0].value.func, ast.Name)
                  and not s.orelse)
            if not ok:
                raise Unsupported("get_distribution: if shape")
            cls = s.body[0].value.func.id
            if cls not in _FAMILY:
                raise Unsupported(f"get_distribution: class {cls}")
            chain.append((t.left.value, cls))
            continue
        if isinstance(s, ast.Raise):
            break
        raise Unsupported("get_distribution: statement")
    else:
        raise Unsupported("get_distribution does not end in raise")
    # each class' textual prefix (startswith test) and parameter order are checked by correspondence
    s = "inductive FamilyName | florySchulz | gauss | uniform | schulzZimm | logNormal | poisson\nderiving DecidableEq, Repr, Inhabited\n\n"
    s += "/-- `get_distribution`: first substring that occurs in the text decides the class. -/\n"
    s += "def distDispatch : List (String × FamilyName) := [" + ", ".join(
        f'("{k}", FamilyName.{_FAMILY[c]})' for k, c in chain) + "]\n"
    return s


# ----------------------------------------------------------------------------------------------
# atomic masses

def _dec_to_rat(txt):
    fr = Fraction(txt)
    return f"({fr.numerator} : Rat) / {fr.denominator}"


def extract_atomic_masses():
    path = os.path.join(SRC, "chem_resource.py")
    with open(path) as fh:
        src = fh.read()
    mod = ast.parse(src)
    for n in mod.body:
        if isinstance(n, ast.Assign) and isinstance(n.targets[0], ast.Name) and n.targets[0].id == "atomic_masses":
            if not isinstance(n.value, ast.Dict):
                raise Unsupported("atomic_masses is not a dict literal")
            rows = []
            for k, v in zip(n.value.keys, n.value.values):
                if not (isinstance(k, ast.Constant) and isinstance(k.value, int) and isinstance(v, ast.Constant)):
                    raise Unsupported("atomic_masses entry")
                txt = ast.get_source_segment(src, v)
                rows.append((k.value, txt))
            s = "/-- `chem_resource.atomic_masses` as exact decimals. -/\n"
            s += "def atomicMasses : List (Nat × Rat) := [\n  " + ",\n  ".join(
                f"({k}, {_dec_to_rat(t)})" for k, t in rows) + "]\n"
            return s
    raise Unsupported("atomic_masses not found")


# ----------------------------------------------------------------------------------------------
# force-field cache (forcefield_helper.get_assignment_class)

def extract_ff_cache(mod):
    """State = (cls_is_none, g_nb, g_smarts).  Translate the `if` test and the assignments.

    Names: parameters smarts_filename -> `smarts`, nb_filename -> `nb`;
    globals _global_nonbonded_itp_file -> `s.gNb`, _global_smarts_rule_file -> `s.gSmarts`.
    The constructor call's two arguments are recorded as `built := (arg0, arg1)`.
    """
    fn = _find_func(mod.body, "get_assignment_class")
    pn = [a.arg for a in fn.args.args]
    if pn != ["smarts_filename", "nb_filename"]:
        raise Unsupported("get_assignment_class parameters")
    pre = {"smarts_filename": "smarts", "nb_filename": "nb",
           "_global_nonbonded_itp_file": "gNb", "_global_smarts_rule_file": "gSmarts"}
    body = [s for s in fn.body if not isinstance(s, ast.Global)]
    if not (len(body) == 2 and isinstance(body[0], ast.If) and isinstance(body[1], ast.Return)):
        raise Unsupported("get_assignment_class body shape")

    def val(e, env):
        if isinstance(e, ast.Name) and e.id in pre:
            return env[pre[e.id]]
        raise Unsupported("get_assignment_class value " + ast.dump(e))

    def test(e):
        if isinstance(e, ast.BoolOp):
            op = " || " if isinstance(e.op, ast.Or) else " && "
            return "(" + op.join(test(v) for v in e.values) + ")"
        if isinstance(e, ast.Compare) and len(e.ops) == 1:
            l, r = e.left, e.comparators[0]
            if isinstance(e.ops[0], ast.Is) and isinstance(r, ast.Constant) and r.value is None \
                    and isinstance(l, ast.Name) and l.id == "_global_assignment_class":
                return "s.cached.isNone"
            if isinstance(e.ops[0], (ast.NotEq, ast.Eq)):
                env = {"smarts": "smarts", "nb": "nb", "gNb": "s.gNb", "gSmarts": "s.gSmarts"}
                op = " != " if isinstance(e.ops[0], ast.NotEq) else " == "
                return "(" + val(l, env) + op + val(r, env) + ")"
        raise Unsupported("get_assignment_class test " + ast.dump(e)[:100])

    cond = test(body[0].test)
    env = {"smarts": "smarts", "nb": "nb", "gNb": "s.gNb", "gSmarts": "s.gSmarts"}
    built = None
    for s in body[0].body:
        if isinstance(s, ast.Assign) and isinstance(s.targets[0], ast.Name):
            tgt = s.targets[0].id
            if tgt in ("_global_nonbonded_itp_file", "_global_smarts_rule_file"):
                env[pre[tgt]] = val(s.value, env)
                continue
            if tgt == "_global_assignment_class" and isinstance(s.value, ast.Call) \
                    and getattr(s.value.func, "id", None) == "SMARTS_ASSIGNMENTS" and len(s.value.args) == 2:
                built = (val(s.value.args[0], env), val(s.value.args[1], env))
                continue
        raise Unsupported("get_assignment_class: statement in if body")
    if built is None or body[0].orelse:
        raise Unsupported("get_assignment_class: no constructor call")
    s = ("/-- File name argument: `none` = Python `None` (bundled default), `some k` = a user path. -/\n"
         "abbrev FName := Option Nat\n\n"
         "/-- module globals of forcefield_helper.py; `cached` = the two file names the cached object was built from,\n"
         "    in the order (smarts rule file, non-bonded parameter file) of `SMARTS_ASSIGNMENTS.__init__`. -/\n"
         "structure FFCache where\n  cached : Option (FName × FName) := none\n  gNb : FName := none\n  gSmarts : FName := none\n"
         "deriving DecidableEq, Repr, Inhabited\n\n"
         "/-- `get_assignment_class(smarts_filename, nb_filename)`: new cache state; the object returned is `cached`. -/\n"
         "def ffCacheStep (s : FFCache) (smarts nb : FName) : FFCache :=\n"
         f"  if {cond} then\n"
         f"    {{ cached := some ({built[0]}, {built[1]}), gNb := {env['gNb']}, gSmarts := {env['gSmarts']} }}\n"
         "  else s\n")
    return s


# ----------------------------------------------------------------------------------------------
# opls.par / ffnonbonded.itp

def _lean_str(s):
    return '"' + s.replace("\\", "\\\\").replace('"', '\\"') + '"'


def read_opls_rules(path=None):
    path = path or os.path.join(SRC, "data", "opls.par")
    rules = []
    with open(path) as fh:
        for line in fh:
            line = line.strip()
            if line and line[0] != "*":
                parts = line.split("|")
                if len(parts) != 4:
                    raise Unsupported("opls.par line with != 4 fields: " + line)
                rules.append((parts[0].strip(), parts[2].strip(), parts[3].strip()))
    return rules


def read_nb_rows(path=None):
    path = path or os.path.join(SRC, "data", "ffnonbonded.itp")
    rows = []
    with open(path) as fh:
        for line in fh:
            if line and line[0] != "[" and line[0] != ";":
                p = line.strip().split()
                if len(p) >= 8:
                    rows.append((p[0], int(p[2]), p[3]))
    return rows


def _lean_chars(s):
    return "[" + ", ".join(_lean_char(c) for c in s) + "]"


def extract_ff_tables():
    """rule texts as explicit `List Char` literals and type names as numeric ids (position of first appearance in
    opls.par): the kernel can then decide the whole table (`decide +kernel`) in seconds, which it cannot do through
    `String` primitives.  The name <-> id table is emitted too."""
    rules = read_opls_rules()
    rows = read_nb_rows()
    ids = {}
    for _, t, _ in rules:
        ids.setdefault(t, len(ids))
    s = "/-- type names of `data/opls.par` in order of first appearance; the position is the type's id -/\n"
    s += "def typeNames : List String := [" + ", ".join(_lean_str(t) for t in ids) + "]\n\n"
    s += "/-- `data/opls.par`: (type id, RULE as characters) in file order. -/\n"
    s += "def oplsRules : List (Nat × List Char) := [\n  " + ",\n  ".join(
        f"({ids[t]}, {_lean_chars(r)})" for _, t, r in rules) + "]\n\n"
    s += "/-- rows of `data/ffnonbonded.itp` whose name is a TYPE of opls.par, in file order: (type id, atomic number, mass·10⁵). -/\n"
    items = []
    for name, z, mass in rows:
        if name in ids:
            fr = Fraction(mass) * 100000
            if fr.denominator != 1:
                raise Unsupported("mass with more than 5 decimals: " + mass)
            items.append(f"({ids[name]}, {z}, {fr.numerator})")
    s += "def nbParams : List (Nat × Nat × Nat) := [\n  " + ",\n  ".join(items) + "]\n"
    return s


# ----------------------------------------------------------------------------------------------

HEADER = """import GBS.Model.Basic
/-!
# GENERATED by /verif/harness/extract.py from /repo's working tree (part: %s). Do not edit.
-/
set_option maxRecDepth 100000
namespace GBS

"""

PINNED_DIR = os.path.join(os.path.dirname(os.path.abspath(__file__)), "extracted_pinned")



# ----------------------------------------------------------------------------------------------
# choose_compatible_weight: from the weights of the compatible descriptors to the vector handed to rng.choice

def _np_call(e, names):
    """np.<name>(...) / numpy.<name>(...) -> (name, args)"""
    if isinstance(e, ast.Call) and isinstance(e.func, ast.Attribute) and isinstance(e.func.value, ast.Name) and e.func.value.id in ("np", "numpy") \
            and e.func.attr in names:
        return e.func.attr, e.args
    return None


def _num_const(e):
    if isinstance(e, ast.Constant) and isinstance(e.value, (int, float)) and not isinstance(e.value, bool):
        fr = Fraction(str(e.value))
        return f"({fr.numerator} : Rat)" if fr.denominator == 1 else f"(({fr.numerator} : Rat) / {fr.denominator})"
    raise Unsupported("numeric constant expected: " + ast.dump(e)[:80])


def _choose_cond(e, w, idx, cur):
    """condition of the `if` in front of `weights += c`, over the current weight vector `cur`"""
    if isinstance(e, ast.BoolOp):
        op = " && " if isinstance(e.op, ast.And) else " || "
        return "(" + op.join(_choose_cond(v, w, idx, cur) for v in e.values) + ")"
    if isinstance(e, ast.UnaryOp) and isinstance(e.op, ast.Not):
        return "(!" + _choose_cond(e.operand, w, idx, cur) + ")"
    if isinstance(e, ast.Compare) and len(e.ops) == 1:
        l, r, o = e.left, e.comparators[0], e.ops[0]
        # len(compatible_idx) > 0, len(weights) != 0, ...
        if isinstance(l, ast.Call) and isinstance(l.func, ast.Name) and l.func.id == "len" and isinstance(l.args[0], ast.Name) and l.args[0].id in (w, idx) \
                and isinstance(r, ast.Constant) and isinstance(r.value, int):
            rel = {ast.Gt: ">", ast.GtE: "≥", ast.Eq: "==", ast.NotEq: "!=", ast.Lt: "<", ast.LtE: "≤"}.get(type(o))
            if rel is None:
                raise Unsupported("comparison of len")
            if rel in ("==", "!="):
                return f"({cur}.length {rel} {r.value})"
            return f"decide ({cur}.length {rel} {r.value})"
    call = _np_call(e, ("all", "any"))
    if call:
        name, args = call
        c = args[0]
        if isinstance(c, ast.Compare) and len(c.ops) == 1 and isinstance(c.ops[0], (ast.Eq, ast.NotEq)) and isinstance(c.left, ast.Name) and c.left.id == w:
            rhs = c.comparators[0]
            if isinstance(rhs, ast.Subscript) and isinstance(rhs.value, ast.Name) and rhs.value.id == w and isinstance(rhs.slice, ast.Constant) and rhs.slice.value == 0:
                val = f"{cur}.headD 0"
            else:
                val = _num_const(rhs)
            rel = "==" if isinstance(c.ops[0], ast.Eq) else "!="
            return f"({cur}.{name} (fun x => x {rel} {val}))"
    raise Unsupported("condition in choose_compatible_weight: " + ast.dump(e)[:120])


def extract_choose(mod):
    fn = _find_func(mod.body, "choose_compatible_weight")
    params = [a.arg for a in fn.args.args]
    if len(params) != 3:
        raise Unsupported("choose_compatible_weight: three parameters expected")
    bds, bond, rng = params
    body = [st for st in fn.body if not (isinstance(st, ast.Expr) and isinstance(st.value, ast.Constant))]
    w = idx = None
    steps = []          # Lean lines
    cur = "ws"
    k = 0
    normalised = False
    chosen = False
    filled = False

    def is_sum_of_w(e):
        c = _np_call(e, ("sum",))
        if c and isinstance(c[1][0], ast.Name) and c[1][0].id == w:
            return True
        return isinstance(e, ast.Call) and isinstance(e.func, ast.Attribute) and e.func.attr == "sum" and isinstance(e.func.value, ast.Name) and e.func.value.id == w

    def check_choice(e):
        if not (isinstance(e, ast.Call) and isinstance(e.func, ast.Attribute) and e.func.attr == "choice" and isinstance(e.func.value, ast.Name) and e.func.value.id == rng):
            raise Unsupported("rng.choice expected")
        if not (len(e.args) == 1 and isinstance(e.args[0], ast.Name) and e.args[0].id == idx):
            raise Unsupported("rng.choice over the compatible indices expected")
        kw = {x.arg: x.value for x in e.keywords}
        if set(kw) != {"p"} or not (isinstance(kw["p"], ast.Name) and kw["p"].id == w):
            raise Unsupported("rng.choice(p=weights) expected")

    for st in body:
        if isinstance(st, ast.Assign) and len(st.targets) == 1 and isinstance(st.targets[0], ast.Name):
            tgt, val = st.targets[0].id, st.value
            if isinstance(val, ast.List) and not val.elts and w is None:
                w = tgt
                continue
            if isinstance(val, ast.Call) and isinstance(val.func, ast.Name) and val.func.id == "get_compatible_bond_descriptor_ids":
                if [getattr(a, "id", None) for a in val.args] != [bds, bond]:
                    raise Unsupported("get_compatible_bond_descriptor_ids(bond_descriptors, bond) expected")
                idx = tgt
                continue
            if isinstance(val, ast.ListComp) and idx is not None:
                # weights = [bond_descriptors[i].weight for i in compatible_idx]
                g = val.generators[0]
                if len(val.generators) == 1 and not g.ifs and isinstance(g.iter, ast.Name) and g.iter.id == idx and isinstance(g.target, ast.Name) \
                        and isinstance(val.elt, ast.Attribute) and val.elt.attr == "weight" and isinstance(val.elt.value, ast.Subscript) \
                        and getattr(val.elt.value.value, "id", None) == bds and getattr(val.elt.value.slice, "id", None) == g.target.id:
                    w = tgt
                    filled = True
                    continue
                raise Unsupported("list comprehension of weights")
            c = _np_call(val, ("asarray", "array"))
            if c and tgt == w and isinstance(c[1][0], ast.Name) and c[1][0].id == w:
                continue
            if tgt == w and isinstance(val, ast.BinOp) and isinstance(val.left, ast.Name) and val.left.id == w:
                if isinstance(val.op, ast.Div) and is_sum_of_w(val.right) and not normalised:
                    normalised = True
                    continue
                raise Unsupported("assignment to weights")
            if chosen is False and isinstance(val, ast.Call):
                check_choice(val)
                chosen = tgt
                continue
            raise Unsupported("statement in choose_compatible_weight: " + ast.dump(st)[:100])
        if isinstance(st, ast.For) and idx is not None and isinstance(st.iter, ast.Name) and st.iter.id == idx and isinstance(st.target, ast.Name):
            b = st.body
            ok = len(b) == 1 and isinstance(b[0], ast.Expr) and isinstance(b[0].value, ast.Call) and isinstance(b[0].value.func, ast.Attribute) \
                and b[0].value.func.attr == "append" and getattr(b[0].value.func.value, "id", None) == w
            if ok:
                a = b[0].value.args[0]
                ok = isinstance(a, ast.Attribute) and a.attr == "weight" and isinstance(a.value, ast.Subscript) and getattr(a.value.value, "id", None) == bds \
                    and getattr(a.value.slice, "id", None) == st.target.id
            if not ok or st.orelse:
                raise Unsupported("loop filling the weights")
            filled = True
            continue
        if isinstance(st, ast.If) and not st.orelse and len(st.body) == 1 and not normalised and filled:
            inner = st.body[0]
            if isinstance(inner, ast.AugAssign) and isinstance(inner.op, ast.Add) and getattr(inner.target, "id", None) == w:
                c = _num_const(inner.value)
            elif isinstance(inner, ast.Assign) and getattr(inner.targets[0], "id", None) == w and isinstance(inner.value, ast.BinOp) and isinstance(inner.value.op, ast.Add) \
                    and getattr(inner.value.left, "id", None) == w:
                c = _num_const(inner.value.right)
            else:
                raise Unsupported("body of the if in choose_compatible_weight")
            k += 1
            steps.append(f"  let ws{k} := if {_choose_cond(st.test, w, idx, cur)} then {cur}.map (· + {c}) else {cur}")
            cur = f"ws{k}"
            continue
        if isinstance(st, ast.AugAssign) and isinstance(st.op, ast.Div) and getattr(st.target, "id", None) == w and is_sum_of_w(st.value) and not normalised and filled:
            normalised = True
            continue
        if isinstance(st, ast.Try):
            if len(st.body) != 1 or not isinstance(st.body[0], ast.Assign):
                raise Unsupported("try body")
            check_choice(st.body[0].value)
            chosen = st.body[0].targets[0].id
            for h in st.handlers:
                if not any(isinstance(x, ast.Raise) for x in h.body):
                    raise Unsupported("handler that swallows the error of rng.choice")
            continue
        if isinstance(st, ast.Return):
            if not (chosen and isinstance(st.value, ast.Name) and st.value.id == chosen):
                raise Unsupported("return of the chosen index expected")
            continue
        raise Unsupported("statement in choose_compatible_weight: " + ast.dump(st)[:100])
    if not (filled and normalised and chosen and w and idx):
        raise Unsupported("choose_compatible_weight: weights / normalisation / choice not all found")
    out = ["/-- `weights` of `choose_compatible_weight` at the call of `rng.choice`, as a function of the weights of the compatible descriptors",
           "(in the order of `get_compatible_bond_descriptor_ids`); the choice is made over exactly those indices with `p = weights`. -/",
           "def chooseSumX (l : List Rat) : Rat := l.foldr (· + ·) 0",
           "def chooseWeightsX (ws : List Rat) : List Rat :="] + steps + [f"  {cur}.map (· / chooseSumX {cur})"]
    return "\n".join(out) + "\n"



def extract_compat_ids(mod):
    """`get_compatible_bond_descriptor_ids`: `for i, other in enumerate(bds): if bond is None or bond.is_compatible(other): acc.append(i)`"""
    fn = _find_func(mod.body, "get_compatible_bond_descriptor_ids")
    params = [a.arg for a in fn.args.args]
    if len(params) != 2:
        raise Unsupported("get_compatible_bond_descriptor_ids: two parameters expected")
    bds, bond = params
    body = [st for st in fn.body if not (isinstance(st, ast.Expr) and isinstance(st.value, ast.Constant))]
    if len(body) != 3:
        raise Unsupported("get_compatible_bond_descriptor_ids: `acc = []`, one for loop, one return expected")
    init, loop, ret = body
    if not (isinstance(init, ast.Assign) and len(init.targets) == 1 and isinstance(init.targets[0], ast.Name) and isinstance(init.value, ast.List) and not init.value.elts):
        raise Unsupported("empty accumulator list expected")
    acc = init.targets[0].id
    if not (isinstance(loop, ast.For) and not loop.orelse and isinstance(loop.iter, ast.Call) and isinstance(loop.iter.func, ast.Name) and loop.iter.func.id == "enumerate"
            and len(loop.iter.args) == 1 and isinstance(loop.iter.args[0], ast.Name) and loop.iter.args[0].id == bds and not loop.iter.keywords
            and isinstance(loop.target, ast.Tuple) and len(loop.target.elts) == 2 and all(isinstance(x, ast.Name) for x in loop.target.elts)):
        raise Unsupported("`for i, other in enumerate(bond_descriptors)` expected")
    i, other = (x.id for x in loop.target.elts)
    if not (len(loop.body) == 1 and isinstance(loop.body[0], ast.If) and not loop.body[0].orelse and len(loop.body[0].body) == 1):
        raise Unsupported("one `if` with one statement expected in the loop")
    test, app = loop.body[0].test, loop.body[0].body[0]
    if not (isinstance(app, ast.Expr) and isinstance(app.value, ast.Call) and isinstance(app.value.func, ast.Attribute) and app.value.func.attr == "append"
            and isinstance(app.value.func.value, ast.Name) and app.value.func.value.id == acc and len(app.value.args) == 1
            and isinstance(app.value.args[0], ast.Name) and app.value.args[0].id == i):
        raise Unsupported("`acc.append(i)` expected")

    def cond(e):
        if isinstance(e, ast.BoolOp):
            return "(" + (" || " if isinstance(e.op, ast.Or) else " && ").join(cond(v) for v in e.values) + ")"
        if isinstance(e, ast.Compare) and len(e.ops) == 1 and isinstance(e.ops[0], (ast.Is, ast.IsNot)) and isinstance(e.left, ast.Name) and e.left.id == bond \
                and isinstance(e.comparators[0], ast.Constant) and e.comparators[0].value is None:
            return "b.isNone" if isinstance(e.ops[0], ast.Is) else "b.isSome"
        if isinstance(e, ast.Call) and isinstance(e.func, ast.Attribute) and e.func.attr == "is_compatible" and len(e.args) == 1 and not e.keywords \
                and isinstance(e.func.value, ast.Name) and isinstance(e.args[0], ast.Name) and {e.func.value.id, e.args[0].id} == {bond, other}:
            if e.func.value.id == bond:
                return "(match b with | some bond => isCompatible bond p.1 | none => false)"
            return "(match b with | some bond => isCompatible p.1 bond | none => false)"
        raise Unsupported("condition of get_compatible_bond_descriptor_ids: " + ast.dump(e)[:80])
    c = cond(test)
    r = ret.value if isinstance(ret, ast.Return) else None
    ok_ret = isinstance(r, ast.Name) and r.id == acc
    if not ok_ret:
        cc = _np_call(r, ("asarray", "array")) if r is not None else None
        ok_ret = bool(cc) and isinstance(cc[1][0], ast.Name) and cc[1][0].id == acc
    if not ok_ret:
        raise Unsupported("return of the accumulated index list expected")
    return ("/-- `get_compatible_bond_descriptor_ids(bond_descriptors, bond)` (core.py): the for loop over `enumerate(bond_descriptors)` appending the index\n"
            "where the condition holds, as a left fold with append -/\n"
            "def compatIdsX (bds : List Desc) (b : Option Desc) : List Nat :=\n"
            f"  bds.zipIdx.foldl (fun acc (p : Desc × Nat) => if {c} then acc ++ [p.2] else acc) []\n")


# ----------------------------------------------------------------------------------------------
# the two comparisons that end the loops of generation: the grow loop of a stochastic object and the ensemble loop of a system

_CMP_LEAN = {ast.Gt: ">", ast.GtE: "≥", ast.Lt: "<", ast.LtE: "≤"}


def _walk_functions(node, name):
    for n in ast.walk(node):
        if isinstance(n, ast.FunctionDef) and n.name == name:
            return n
    raise Unsupported(f"function {name} not found")


def extract_loops():
    st = _parse("stochastic.py")
    fn = _walk_functions(_find_class(st, "Stochastic"), "generate_repeat_units_and_finalize")
    loops = [n for n in ast.walk(fn) if isinstance(n, ast.While)]
    if len(loops) != 1:
        raise Unsupported("one while loop expected in generate_repeat_units_and_finalize")
    loop = loops[0]
    if not (isinstance(loop.test, ast.Constant) and loop.test.value is True):
        raise Unsupported("`while True` expected for the grow loop")
    # the names of the starting mass and of the target
    start_name = target_name = None
    for n in fn.body:
        if isinstance(n, ast.Assign) and len(n.targets) == 1 and isinstance(n.targets[0], ast.Name):
            v = n.value
            if isinstance(v, ast.Call) and isinstance(v.func, ast.Attribute) and v.func.attr == "draw_mw":
                target_name = n.targets[0].id
            elif (isinstance(v, ast.Call) and isinstance(v.func, ast.Attribute) and v.func.attr == "HeavyAtomMolWt") or \
                    (isinstance(v, ast.Attribute) and v.attr == "weight"):
                start_name = n.targets[0].id
    if start_name is None or target_name is None:
        raise Unsupported("starting mass / drawn target not found in front of the grow loop")
    breaks = [n for n in loop.body if isinstance(n, ast.If) and len(n.body) == 1 and isinstance(n.body[0], ast.Break) and not n.orelse]
    if not breaks or loop.body[-1] is not breaks[-1]:
        raise Unsupported("the grow loop must end with `if <mass test>: break`")
    t = breaks[-1].test
    if not (isinstance(t, ast.Compare) and len(t.ops) == 1 and type(t.ops[0]) in _CMP_LEAN):
        raise Unsupported("comparison expected in the mass test of the grow loop")
    left, right = t.left, t.comparators[0]
    ok_left = isinstance(left, ast.BinOp) and isinstance(left.op, ast.Sub) and isinstance(left.right, ast.Name) and left.right.id == start_name and \
        ((isinstance(left.left, ast.Call) and isinstance(left.left.func, ast.Attribute) and left.left.func.attr == "HeavyAtomMolWt") or
         (isinstance(left.left, ast.Attribute) and left.left.attr == "weight"))
    if not (ok_left and isinstance(right, ast.Name) and right.id == target_name):
        raise Unsupported("mass test of the grow loop: `<mass now> - <starting mass> <op> <target>` expected")
    grow_op = _CMP_LEAN[type(t.ops[0])]
    sy = _parse("system.py")
    gen = _walk_functions(_find_class(sy, "System"), "generator")
    wl = [n for n in ast.walk(gen) if isinstance(n, ast.While)]
    if len(wl) != 1:
        raise Unsupported("one while loop expected in System.generator")
    t = wl[0].test
    if not (isinstance(t, ast.Compare) and len(t.ops) == 1 and type(t.ops[0]) in _CMP_LEAN and isinstance(t.left, ast.Name)
            and isinstance(t.comparators[0], ast.Attribute) and t.comparators[0].attr == "system_mass"):
        raise Unsupported("`while <accumulated mass> <op> self.system_mass` expected in System.generator")
    acc_name = t.left.id
    grows = [n for n in ast.walk(wl[0]) if isinstance(n, ast.AugAssign) and isinstance(n.target, ast.Name) and n.target.id == acc_name and isinstance(n.op, ast.Add)]
    if len(grows) != 1:
        raise Unsupported("the accumulated mass must grow by one `+=` per member")
    sys_op = _CMP_LEAN[type(t.ops[0])]
    return (
        "/-- `if <mass now> - starting_mol_weight " + grow_op + " target_mol_weight: break` at the end of the `while True` loop of\n"
        "`Stochastic.generate` (stochastic.py): growth stops after the unit that makes this true. -/\n"
        f"@[reducible] def growStopsX (added target : Rat) : Prop := added {grow_op} target\n"
        f"instance (added target : Rat) : Decidable (growStopsX added target) := inferInstanceAs (Decidable (added {grow_op} target))\n\n"
        "/-- `while generated_total_mass " + sys_op + " self.system_mass` of `System.generator` (system.py): another member is generated while this is true. -/\n"
        f"@[reducible] def sysContinuesX (acc M : Rat) : Prop := acc {sys_op} M\n"
        f"instance (acc M : Rat) : Decidable (sysContinuesX acc M) := inferInstanceAs (Decidable (acc {sys_op} M))\n")


# ----------------------------------------------------------------------------------------------
# mixture.py: the linked setters `system_mass` and `relative_mass` (C12)

_MIX_FIELD = {"_absolute_mass": "abs", "_relative_mass": "rel", "_system_mass": "sys"}
_MIX_ERR = [("negative total system mass", "negMass"), ("Invalid extra fraction", "badFraction")]


def _mix_props(cls):
    """property name -> field, for getters of the shape `return self._field`"""
    props = {}
    for n in cls.body:
        if isinstance(n, ast.FunctionDef) and any(isinstance(d, ast.Name) and d.id == "property" for d in n.decorator_list):
            if len(n.body) == 1 and isinstance(n.body[0], ast.Return) and isinstance(n.body[0].value, ast.Attribute) \
                    and isinstance(n.body[0].value.value, ast.Name) and n.body[0].value.value.id == "self" and n.body[0].value.attr in _MIX_FIELD:
                props[n.name] = _MIX_FIELD[n.body[0].value.attr]
    return props


def _mix_setter(cls, prop):
    for n in cls.body:
        if isinstance(n, ast.FunctionDef) and n.name == prop:
            for d in n.decorator_list:
                if isinstance(d, ast.Attribute) and d.attr == "setter" and isinstance(d.value, ast.Name) and d.value.id == prop:
                    return n
    raise Unsupported(f"setter of Mixture.{prop} not found")


class _MixTr:
    """statements of a setter -> a Lean term of type `E Mix`; `env` maps a field to the Lean term of its value where it is known to be a number"""

    def __init__(self, props, arg, setters):
        self.props, self.arg, self.setters = props, arg, setters

    def field(self, e):
        if isinstance(e, ast.Attribute) and isinstance(e.value, ast.Name) and e.value.id == "self":
            if e.attr in _MIX_FIELD:
                return _MIX_FIELD[e.attr]
            if e.attr in self.props:
                return self.props[e.attr]
        return None

    def expr(self, e, env, divs):
        """Lean Rat term; the divisors met (evaluation order) are appended to `divs`"""
        if isinstance(e, ast.Name) and e.id == self.arg:
            return self.arg
        if isinstance(e, ast.Constant) and isinstance(e.value, (int, float)) and not isinstance(e.value, bool):
            fr = Fraction(str(e.value))
            return f"({fr.numerator} : Rat)" if fr.denominator == 1 else f"(({fr.numerator} : Rat) / {fr.denominator})"
        f = self.field(e)
        if f is not None:
            if f not in env:
                raise Unsupported(f"Mixture setter reads `{f}` where it may be None")
            return env[f]
        if isinstance(e, ast.BinOp) and type(e.op) in (ast.Add, ast.Sub, ast.Mult, ast.Div):
            l = self.expr(e.left, env, divs)
            r = self.expr(e.right, env, divs)
            if isinstance(e.op, ast.Div):
                if not (isinstance(e.right, ast.Constant) and e.right.value != 0):
                    divs.append(r)
            sym = {ast.Add: "+", ast.Sub: "-", ast.Mult: "*", ast.Div: "/"}[type(e.op)]
            return f"({l} {sym} {r})"
        raise Unsupported("arithmetic of a Mixture setter: " + ast.dump(e)[:80])

    def cond(self, e):
        if isinstance(e, ast.BoolOp):
            op = " ∨ " if isinstance(e.op, ast.Or) else " ∧ "
            return "(" + op.join(self.cond(v) for v in e.values) + ")"
        if isinstance(e, ast.Compare) and len(e.ops) == 1 and type(e.ops[0]) in _CMP_LEAN:
            return f"{self.expr(e.left, {}, [])} {_CMP_LEAN[type(e.ops[0])]} {self.expr(e.comparators[0], {}, [])}"
        raise Unsupported("condition of a Mixture setter: " + ast.dump(e)[:80])

    def guard(self, divs, body):
        for d in reversed(divs):
            body = f"if {d} = 0 then .error .zeroDiv else {body}"
        return body

    def stmts(self, ss, cur, env, depth=0):
        if not ss:
            return f".ok {cur}"
        s, rest = ss[0], ss[1:]
        if isinstance(s, ast.Return) and s.value is None:
            return f".ok {cur}"
        if isinstance(s, ast.Expr) and isinstance(s.value, ast.Constant) and isinstance(s.value.value, str):
            return self.stmts(rest, cur, env, depth)
        if isinstance(s, ast.If) and len(s.body) == 1 and isinstance(s.body[0], ast.Raise) and not s.orelse:
            msg = ast.unparse(s.body[0])
            err = next((v for k, v in _MIX_ERR if k in msg), None)
            if err is None:
                raise Unsupported("unknown error raised in a Mixture setter")
            return f"if {self.cond(s.test)} then .error .{err} else\n  " + self.stmts(rest, cur, env, depth)
        if isinstance(s, ast.Assign) and len(s.targets) == 1:
            t = s.targets[0]
            if isinstance(t, ast.Attribute) and isinstance(t.value, ast.Name) and t.value.id == "self":
                if t.attr in _MIX_FIELD:
                    divs = []
                    v = self.expr(s.value, env, divs)
                    f = _MIX_FIELD[t.attr]
                    env2 = dict(env)
                    env2[f] = v
                    return self.guard(divs, self.stmts(rest, f"{{ {cur} with {f} := some {v} }}", env2, depth))
                if t.attr in self.setters and not rest:
                    divs = []
                    v = self.expr(s.value, env, divs)
                    return self.guard(divs, f"{self.setters[t.attr]} {cur} {v}")
        if isinstance(s, ast.If) and not s.orelse:
            ends = isinstance(s.body[-1], ast.Return) or not rest
            if not ends:
                raise Unsupported("an `if` of a Mixture setter must end with `return` or be the last statement")
            t = s.test
            if isinstance(t, ast.Compare) and len(t.ops) == 1 and isinstance(t.ops[0], ast.IsNot) and isinstance(t.comparators[0], ast.Constant) \
                    and t.comparators[0].value is None and self.field(t.left) is not None:
                f = self.field(t.left)
                if f in env:
                    return self.stmts(list(s.body), cur, env, depth)
                v = f"{f}{depth}"
                env2 = dict(env)
                env2[f] = v
                return (f"match {cur_field(cur, f)} with\n  | some {v} => " + self.stmts(list(s.body), cur, env2, depth + 1) +
                        "\n  | none => (" + self.stmts(rest, cur, env, depth + 1) + ")")
            f = self.field(t)
            if f is not None:  # Python truthiness of an optional float
                if f in env:
                    return f"if {env[f]} ≠ 0 then ({self.stmts(list(s.body), cur, env, depth + 1)}) else ({self.stmts(rest, cur, env, depth + 1)})"
                v = f"{f}{depth}"
                env2 = dict(env)
                env2[f] = v
                other = self.stmts(rest, cur, env, depth + 1)
                return (f"match {cur_field(cur, f)} with\n  | some {v} => if {v} ≠ 0 then (" + self.stmts(list(s.body), cur, env2, depth + 1) + f") else ({other})"
                        f"\n  | none => ({other})")
        raise Unsupported("statement of a Mixture setter: " + ast.unparse(s)[:80])


def cur_field(cur, f):
    return f"({cur}).{f}"


def extract_mixture(mod):
    cls = _find_class(mod, "Mixture")
    props = _mix_props(cls)
    for need in ("absolute_mass", "relative_mass", "system_mass"):
        if need not in props:
            raise Unsupported(f"property getter Mixture.{need} must be `return self._{need}`")
    out = []
    fs = _mix_setter(cls, "system_mass")
    arg = fs.args.args[1].arg
    tr = _MixTr(props, arg, {})
    out.append("/-- `Mixture.system_mass.setter` (mixture.py), statement by statement; Python's `ZeroDivisionError` at every division by a variable -/\n"
               f"def setSysX (m : Mix) ({arg} : Rat) : E Mix :=\n  " + tr.stmts(list(fs.body), "m", {}))
    fr = _mix_setter(cls, "relative_mass")
    arg = fr.args.args[1].arg
    tr = _MixTr(props, arg, {"system_mass": "setSysX"})
    out.append("/-- `Mixture.relative_mass.setter` (mixture.py); the assignment to `self.system_mass` is the call of the setter above -/\n"
               f"def setRelX (m : Mix) ({arg} : Rat) : E Mix :=\n  " + tr.stmts(list(fr.body), "m", {}))
    return "\n\n".join(out) + "\n"


def extract_mixture_print(mod):
    """`Mixture.generate_string(extension)`: if-chain returning f-strings / constants over the two mass fields"""
    cls = _find_class(mod, "Mixture")
    props = _mix_props(cls)
    fn = _find_func(cls.body, "generate_string")
    params = [a.arg for a in fn.args.args]
    if len(params) != 2:
        raise Unsupported("Mixture.generate_string(self, extension) expected")
    ext = params[1]

    def field(e):
        if isinstance(e, ast.Attribute) and isinstance(e.value, ast.Name) and e.value.id == "self":
            f = _MIX_FIELD.get(e.attr) or props.get(e.attr)
            if f in ("abs", "rel"):
                return f
        raise Unsupported("Mixture.generate_string reads something else than the two mass fields")

    def text(e):
        if isinstance(e, ast.Constant) and isinstance(e.value, str):
            return _lean_str(e.value) + ".toList"
        if isinstance(e, ast.JoinedStr):
            parts = []
            for v in e.values:
                if isinstance(v, ast.Constant) and isinstance(v.value, str):
                    parts.append(_lean_str(v.value) + ".toList")
                elif isinstance(v, ast.FormattedValue) and v.conversion == -1 and v.format_spec is None:
                    parts.append(f"(match m.{field(v.value)} with | some x => numStr x | none => \"None\".toList)")
                else:
                    raise Unsupported("format specification in Mixture.generate_string")
            return " ++ ".join(parts) if parts else "[]"
        raise Unsupported("string expression in Mixture.generate_string: " + ast.dump(e)[:80])

    def stmts(ss):
        if not ss:
            raise Unsupported("Mixture.generate_string may fall off its end")
        s0, rest = ss[0], ss[1:]
        if isinstance(s0, ast.Expr) and isinstance(s0.value, ast.Constant):
            return stmts(rest)
        if isinstance(s0, ast.Return) and s0.value is not None:
            return text(s0.value)
        if isinstance(s0, ast.If):
            t = s0.test
            if isinstance(t, ast.Name) and t.id == ext:
                c = "ext"
            elif isinstance(t, ast.Compare) and len(t.ops) == 1 and isinstance(t.ops[0], (ast.Is, ast.IsNot)) and isinstance(t.comparators[0], ast.Constant) \
                    and t.comparators[0].value is None:
                c = f"m.{field(t.left)}.{'isNone' if isinstance(t.ops[0], ast.Is) else 'isSome'}"
            else:
                raise Unsupported("condition in Mixture.generate_string: " + ast.dump(t)[:80])
            other = stmts(list(s0.orelse) + rest) if s0.orelse else stmts(rest)
            return f"(if {c} then {stmts(list(s0.body) + rest)} else {other})"
        raise Unsupported("statement in Mixture.generate_string: " + ast.unparse(s0)[:80])

    return ("/-- `Mixture.generate_string(extension)` (mixture.py): the if-chain and the f-strings as written; a float is formatted by `repr` (`numStr`) -/\n"
            "def printMixX (m : P.PMix) (ext : Bool) : Py.Str :=\n  open P in " + stmts(list(fn.body)) + "\n")


def _part_bond():
    bond = _parse("bond.py")
    return extract_is_compatible(bond) + "\n" + extract_order_chain(bond) + "\n" + extract_compat_text(bond)


PARTS = [
    ("Bond", "bond", _part_bond),
    ("Token", "token", lambda: extract_atom_tuples(_parse("token.py"))),
    ("Dist", "dist", lambda: extract_dist_dispatch(_parse("distribution.py"))),
    ("Masses", "masses", extract_atomic_masses),
    ("FFCache", "ffcache", lambda: extract_ff_cache(_parse("forcefield_helper.py"))),
    ("FFTables", "fftables", extract_ff_tables),
    ("Choose", "choose", lambda: extract_choose(_parse("core.py")) + "\n" + extract_compat_ids(_parse("core.py"))),
    ("Loops", "loops", extract_loops),
    ("Mixture", "mixture", lambda: extract_mixture(_parse("mixture.py")) + "\n" + extract_mixture_print(_parse("mixture.py"))),
]


def generate(write_pinned=False):
    """Returns ({module: text}, stale) where stale maps part -> reason for parts the translator could not
    regenerate; for those the text of the last good tree is substituted so that *other* properties'
    models still build, and every property depending on a stale part reports a broken tie.
    One Lean file per part: a change of one part rebuilds only what depends on it."""
    files = {}
    stale = {}
    for mod, name, fn in PARTS:
        try:
            text = fn()
        except (Unsupported, SyntaxError, OSError, ValueError, KeyError, IndexError, AttributeError) as exc:
            stale[name] = f"{type(exc).__name__}: {exc}"
            with open(os.path.join(PINNED_DIR, name + ".lean")) as fh:
                text = fh.read()
        else:
            if write_pinned:
                os.makedirs(PINNED_DIR, exist_ok=True)
                with open(os.path.join(PINNED_DIR, name + ".lean"), "w") as fh:
                    fh.write(text)
        files[mod] = ("import GBS.Model.Mixture\nimport GBS.Model.Parse\n" if name == "mixture" else "import GBS.Extracted.Bond\n" if name == "choose" else "") + (HEADER % (name + (" — STALE: text of the last good tree" if name in stale else ""))) + text + "\nend GBS\n"
    return files, stale


def main():
    import json
    lean_dir = os.path.join(os.path.dirname(os.path.abspath(__file__)), "..", "lean")
    out_dir = os.path.join(lean_dir, "GBS", "Extracted")
    os.makedirs(out_dir, exist_ok=True)
    files, stale = generate(write_pinned="--write-pinned" in sys.argv)
    for mod, text in files.items():
        out = os.path.join(out_dir, mod + ".lean")
        old = None
        if os.path.exists(out):
            with open(out) as fh:
                old = fh.read()
        if old != text:
            tmp = out + ".tmp%d" % os.getpid()
            with open(tmp, "w") as fh:
                fh.write(text)
            os.replace(tmp, out)
            print("EXTRACT: updated", os.path.normpath(out))
    with open(os.path.join(lean_dir, ".extract_status.json"), "w") as fh:
        json.dump({"stale": stale}, fh)
    for k, v in stale.items():
        print(f"EXTRACT-UNSUPPORTED part={k}: {v}")


if __name__ == "__main__":
    main()
