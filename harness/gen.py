"""Structured generator of G-BigSMILES notation: ASTs, an independent printer with layouts (whitespace,
number spellings), and the structure each AST denotes (atoms, inner bonds, descriptor attachment).

Every random decision derives from the `random.Random` passed in (seeded from VERIF_SEED)."""
import random
from dataclasses import dataclass, field
from fractions import Fraction

BOND_CHARS = {1: "", 2: "=", 3: "#"}
ORDER_NAME = {1: 1, 2: 2, 3: 3, 12: 12}

# (text, max heavy valence, is bracket)
PALETTE = [("C", 4, False)] * 10 + [("N", 3, False)] * 3 + [("O", 2, False)] * 3 + [("S", 2, False), ("P", 3, False),
            ("F", 1, False), ("Cl", 1, False), ("Br", 1, False), ("I", 1, False), ("B", 3, False),
            ("[Si]", 4, True), ("[N+]", 4, True), ("[O-]", 1, True), ("[13C]", 4, True), ("[C@H]", 3, True),
            ("[SiH2]", 2, True), ("[NH+]", 3, True)]
PALETTE_SIMPLE = [("C", 4, False)] * 8 + [("N", 3, False), ("O", 2, False), ("S", 2, False), ("F", 1, False), ("Cl", 1, False)]

# ring templates: (atoms, aromatic)
RINGS = [(["c"] * 6, True), (["c", "c", "c", "n", "c", "c"], True), (["c", "c", "o", "c", "c"], True), (["c", "c", "s", "c", "c"], True),
         (["C"] * 6, False), (["C"] * 5, False), (["C", "C", "O", "C", "C"], False), (["C", "C", "C"], False)]
AROM_VALENCE = {"c": 3, "n": 2, "o": 2, "s": 2}
ALI_VALENCE = {"C": 4, "N": 3, "O": 2, "S": 2}


@dataclass
class DescT:
    sym: str                      # "$", "<", ">"
    id: object = None             # None or int
    weight: object = None         # None | ("s", spelling) | ("l", [spellings])
    ws_in: str = ""               # whitespace inside the |..| segment

    def value(self):
        if self.weight is None:
            return 1.0, None
        if self.weight[0] == "s":
            return float(self.weight[1]), None
        l = [float(x) for x in self.weight[1]]
        return float(sum(l)), l

    def text(self, ext=True):
        s = "[" + self.sym + ("" if self.id is None else str(self.id))
        if ext and self.weight is not None:
            body = self.weight[1] if self.weight[0] == "s" else " ".join(self.weight[1])
            # a number spelled `2.` directly before `|` would read as the mixture marker `.|` inside a molecule
            tail = self.ws_in if not (body.endswith(".") and self.ws_in == "") else " "
            s += "|" + self.ws_in + body + tail + "|"
        return s + "]"

    def klass(self, order=1):
        return (self.sym, self.id, order)


def conj(sym):
    return {"$": "$", "<": ">", ">": "<"}[sym]


@dataclass
class Node:
    text: str
    valence: int
    aromatic: bool = False
    children: list = field(default_factory=list)   # (order, Node | DescT)
    rings: list = field(default_factory=list)      # (digit, order) closures written at this atom
    used: int = 0

    def free(self):
        return self.valence - self.used


@dataclass
class TokenT:
    root: Node
    lead: object = None           # (order, DescT) written before the root
    # filled by render():
    text: str = ""
    atoms: list = field(default_factory=list)       # atom texts in written order
    bonds: list = field(default_factory=list)       # (i, j, order) inner bonds; order 12 = aromatic
    descs: list = field(default_factory=list)       # (DescT, atom index, order) in written order

    def n_desc(self):
        return len(self.descs)


SPELLINGS = {
    0.0: ["0", "0.", "0.0", "0e0", ".0"],
    1.0: ["1", "1.", "1.0", "1e0", "+1", "01"],
    2.0: ["2", "2.", "2.0", "2e0", "0.2e1", "20e-1"],
    3.0: ["3", "3.0", "3.", "30e-1"],
    0.5: ["0.5", ".5", "5e-1", "0.50", "5E-1"],
    0.1: ["0.1", ".1", "1e-1"],
    7.0: ["7", "7.", "7.0"],
    8.0: ["8", "8.0"],
    10.0: ["10", "1e1", "10.", "1E1", "1_0"],
    2.5: ["2.5", "25e-1", "2.50"],
    40.0: ["40", "4e1", "40.0"],
    0.25: ["0.25", ".25", "2.5e-1"],
    12.75: ["12.75", "1275e-2"],
    2e-9: ["2e-9", "2E-09", "0.000000002"],
    6e-9: ["6e-9", "6.0e-9"],
}


def spell(rnd, value, plain=False):
    if plain or value not in SPELLINGS:
        return repr(float(value)) if value != int(value) or rnd.random() < 0.3 else str(int(value))
    return rnd.choice(SPELLINGS[value])


def rand_weight(rnd, zero_ok=False):
    vals = [1.0, 2.0, 3.0, 0.5, 0.1, 7.0, 8.0, 10.0, 2.5, 40.0, 0.25, 12.75]
    if zero_ok and rnd.random() < 0.15:
        return 0.0
    if rnd.random() < 0.12:
        # weights on a tiny scale / next to each other: proportions are exact ratios, never "equal up to a tolerance"
        return rnd.choice([2e-9, 6e-9, 2e-9, 6e-9, 1.000001])
    return rnd.choice(vals)


def ws(rnd, p=0.3):
    if rnd.random() > p:
        return ""
    return rnd.choice([" ", "  ", "\t", " \t"])


# ------------------------------------------------------------------------------------------------
# token trees

def _new_atom(rnd, palette):
    t, v, _ = rnd.choice(palette)
    return Node(t, v)


def rand_tree(rnd, n_atoms, n_desc_orders, palette=None, ring_p=0.3, multi_p=0.2, lead_p=0.5):
    """random SMILES tree with `len(n_desc_orders)` descriptor slots of the given bond orders.
    Returns (root, slots) where slots = list of ("lead"|Node, order) in no particular order, or None."""
    palette = palette or PALETTE
    for _attempt in range(50):
        root = _new_atom(rnd, palette)
        if root.valence < 2 and n_atoms > 1:
            continue
        nodes = [root]
        count = 1
        fail = False
        while count < n_atoms:
            cands = [n for n in nodes if n.free() > 0]
            if not cands:
                fail = True
                break
            parent = rnd.choice(cands)
            if rnd.random() < ring_p and n_atoms - count >= 3 and not parent.aromatic:
                atoms, arom = rnd.choice(RINGS)
                if len(atoms) > n_atoms - count + 2:
                    continue
                ring_nodes = [Node(a, (AROM_VALENCE if arom else ALI_VALENCE)[a], arom) for a in atoms]
                border = 12 if arom else 1
                for a, b in zip(ring_nodes, ring_nodes[1:]):
                    a.children.append((border, b))
                    a.used += 1
                    b.used += 1
                ring_nodes[0].rings.append(("x", border, ring_nodes[-1]))   # digit assigned at render time
                ring_nodes[0].used += 1
                ring_nodes[-1].used += 1
                parent.children.append((1, ring_nodes[0]))
                parent.used += 1
                ring_nodes[0].used += 1
                if ring_nodes[0].free() < 0:
                    fail = True
                    break
                nodes += ring_nodes
                count += len(ring_nodes)
                continue
            child = _new_atom(rnd, palette)
            order = 1
            if rnd.random() < multi_p:
                order = rnd.choice([2, 2, 3])
            order = min(order, parent.free(), child.valence)
            if child.text in ("[C@H]", "[NH+]", "[SiH2]", "B", "P", "[O-]", "S") or parent.text in ("[C@H]", "[NH+]", "[SiH2]", "B", "P", "S"):
                order = 1
            if order == 3 and (parent.text != "C" and parent.text != "N" or child.text not in ("C", "N")):
                order = 1
            if order == 2 and (child.text in ("F", "Cl", "Br", "I") or parent.text in ("F", "Cl", "Br", "I")):
                order = 1
            parent.children.append((order, child))
            parent.used += order
            child.used += order
            nodes.append(child)
            count += 1
        if fail:
            continue
        slots = []
        ok = True
        lead_taken = False
        for order in n_desc_orders:
            cands = [n for n in nodes if n.free() >= order and (order == 1 or (not n.aromatic and n.text in ("C", "N", "[Si]", "[13C]")))]
            if order == 3:
                cands = [n for n in cands if n.text in ("C", "[13C]")]
            if order == 2:
                cands = [n for n in cands if n.text in ("C", "N", "[13C]", "[Si]")]
            if not cands:
                ok = False
                break
            n = rnd.choice(cands)
            n.used += order
            if n is root and not lead_taken and rnd.random() < lead_p:
                lead_taken = True
                slots.append(("lead", order))
            else:
                slots.append((n, order))
        if not ok:
            continue
        return root, slots
    return None


def render_token(tok, ext=True, paren_last_p=0.0, rnd=None, probe=False):
    """independent printer: fills text, atoms, bonds, descs (probe=True: descriptors printed as a carbon atom, for
    the chemical validity filter; does not touch tok.text)"""
    tok.atoms, tok.bonds, tok.descs = [], [], []
    out = []
    next_digit = [1]
    pending = {}   # id(node) -> (digit, order, opener index)

    def bond_char(order, a_arom=False, b_arom=False):
        if order == 12:
            return ""
        if order == 1:
            return ""
        return BOND_CHARS[order]

    def emit(node, parent_idx, order):
        idx = len(tok.atoms)
        tok.atoms.append(node.text)
        if parent_idx is not None:
            tok.bonds.append((parent_idx, idx, order))
        out.append(node.text)
        # ring closures that end here
        if id(node) in pending:
            d, o, opener = pending.pop(id(node))
            out.append(str(d))
            tok.bonds.append((opener, idx, o))
        for r in node.rings:
            _, o, target = r
            d = next_digit[0]
            next_digit[0] += 1
            pending[id(target)] = (d, o, idx)
            out.append(str(d))
        kids = list(node.children)
        for k, (o, child) in enumerate(kids):
            last = (k == len(kids) - 1)
            wrap = not last or (rnd is not None and rnd.random() < paren_last_p and not isinstance(child, DescT))
            if wrap:
                out.append("(")
            if isinstance(child, DescT):
                out.append(BOND_CHARS.get(o, ""))
                out.append("C" if probe else child.text(ext))
                tok.descs.append((child, idx, o))
            else:
                out.append(bond_char(o))
                emit(child, idx, o)
            if wrap:
                out.append(")")

    if tok.lead is not None:
        o, d = tok.lead
        out.append("C" if probe else d.text(ext))
        out.append(BOND_CHARS.get(o, ""))
        tok.descs.append((d, 0, o))
    emit(tok.root, None, None)
    if probe:
        return "".join(out)
    tok.text = "".join(out)
    return tok.text


def chain_end_index(tok):
    """index (written order) of the atom a descriptor appended to the token text binds to"""
    render_token(tok)
    # atoms are numbered in emission order: walk the last-child chain counting emitted atoms
    order = []

    def walk(node):
        order.append(node)
        for _, ch in node.children:
            if isinstance(ch, Node):
                walk(ch)
    walk(tok.root)
    n = tok.root
    while n.children and isinstance(n.children[-1][1], Node):
        n = n.children[-1][1]
    for i, m in enumerate(order):
        if m is n:
            return i
    return 0


def chem_ok(tok, prepend=False, append=False):
    """mimic generation chemistry: the fragment as RDKit reads it, plus one carbon neighbour bonded with the
    descriptor's order at every descriptor's atom (and at the atoms auto-inserted descriptors bind to), sanitises"""
    from rdkit import Chem
    render_token(tok)
    try:
        frag = Chem.MolFromSmiles(tok_fragment_guess(tok))
        if frag is None or frag.GetNumAtoms() != len(tok.atoms):
            return False
        em = Chem.EditableMol(frag)
        sites = [(a, o) for _, a, o in tok.descs]
        if prepend:
            sites.append((0, 1))
        if append:
            sites.append((chain_end_index(tok), 1))
        for a, o in sites:
            idx = em.AddAtom(Chem.Atom(6))
            em.AddBond(a, idx, {1: Chem.BondType.SINGLE, 2: Chem.BondType.DOUBLE, 3: Chem.BondType.TRIPLE}[o])
        m = em.GetMol()
        Chem.SanitizeMol(m)
        return True
    except Exception:
        return False


def tok_fragment_guess(tok):
    """the token without its descriptors (valid SMILES when descriptors sit in branches or at chain ends)"""
    import re
    t = render_token(tok, ext=False)
    render_token(tok)          # leave tok.text in its extension form
    t = re.sub(r"[=#]?\[[$<>][0-9]*\][=#]?", "", t)
    t = t.replace("()", "")
    return t


def make_token(rnd, descs, n_atoms=None, palette=None, orders=None, kw_pre=False, kw_app=False, **kw):
    """token with the given DescT list (in *some* written order; the returned token's .descs gives the
    written order).  orders: bond order per descriptor (default all 1)."""
    n_atoms = n_atoms or rnd.randint(1, 6)
    orders = orders or [1] * len(descs)
    for _ in range(60):
        r = rand_tree(rnd, n_atoms, orders, palette=palette, **kw)
        if r is None:
            n_atoms += 1
            continue
        root, slots = r
        tok = TokenT(root)
        ds = list(descs)
        for (where, order), d in zip(slots, ds):
            if where == "lead":
                tok.lead = (order, d)
            else:
                where.children.insert(rnd.randint(0, len(where.children)), (order, d))
        render_token(tok, rnd=rnd)
        if not chem_ok(tok, prepend=kw_pre, append=kw_app):
            continue
        return tok
    raise RuntimeError("could not build token")


def simple_token(text, descs_at):
    """hand-written token: text with descriptors given explicitly is parsed nowhere; used for fixed archetypes"""
    raise NotImplementedError


# ------------------------------------------------------------------------------------------------
# distributions

def rand_dist(rnd, unit_mass=40.0, units=(1, 12), families=None):
    fam = rnd.choice(families or ["gauss", "uniform", "schulz_zimm", "log_normal", "poisson", "flory_schulz"])
    n = rnd.uniform(*units)
    mean = max(1.0, unit_mass * n)
    if fam == "gauss":
        mu = round(mean, rnd.choice([0, 1]))
        sig = round(mean * rnd.choice([0.05, 0.2, 0.5]), 1)
        return fam, [mu, sig], f"gauss({spell(rnd, mu, True)},{ws(rnd)}{spell(rnd, sig, True)})"
    if fam == "uniform":
        lo = int(mean * rnd.choice([0.0, 0.5, 0.9]))
        hi = int(mean * rnd.choice([1.1, 1.5, 2.0])) + 1
        if rnd.random() < 0.3:
            # bounds written with a fraction: the library truncates them (`int(...)`), the canonical string shows the truncated bounds
            flo, fhi = rnd.choice([0.9, 0.5, 0.25]), rnd.choice([0.9, 0.5, 0.75])
            return fam, [lo, hi], f"uniform({lo + flo!r},{ws(rnd)}{hi + fhi!r})"
        return fam, [lo, hi], f"uniform({lo},{ws(rnd)}{hi})"
    if fam == "schulz_zimm":
        mn = round(mean, 0)
        mw = round(mn * rnd.choice([1.05, 1.2, 1.6]), 0) + 1
        return fam, [mw, mn], f"schulz_zimm({spell(rnd, mw, True)},{ws(rnd)}{spell(rnd, mn, True)})"
    if fam == "log_normal":
        mn = round(mean, 0)
        d = rnd.choice([1.05, 1.2, 1.5])
        return fam, [mn, d], f"log_normal({spell(rnd, mn, True)},{ws(rnd)}{d})"
    if fam == "poisson":
        mu = round(mean, 0)
        return fam, [mu], f"poisson({spell(rnd, mu, True)})"
    a = round(min(0.9, max(1e-3, 2.0 / (mean + 1))), 4)
    return fam, [a], f"flory_schulz({a!r})"


# ------------------------------------------------------------------------------------------------
# stochastic objects, molecules

@dataclass
class StochT:
    left: object            # None (= "[]") or DescT
    repeats: list
    ends: list
    right: object
    dist: object = None     # (family, params, text) or None
    lay: dict = field(default_factory=dict)

    def text(self, ext=True):
        L = self.lay
        lt = "[]" if self.left is None else self.left.text(ext)
        rt = "[]" if self.right is None else self.right.text(ext)
        reps = (L.get("c1", "") + "," + L.get("c2", " ")).join(render_token(t, ext) for t in self.repeats)
        s = "{" + lt + L.get("al", "") + reps
        if self.ends:
            s += L.get("s1", "") + ";" + L.get("s2", " ") + (L.get("c1", "") + "," + L.get("c2", " ")).join(render_token(t, ext) for t in self.ends)
        s += L.get("br", "") + rt + "}"
        if ext and self.dist is not None:
            s += "|" + L.get("d1", "") + self.dist[2] + L.get("d2", "") + "|"
        return s

    def all_descs(self):
        out = []
        for t in self.repeats + self.ends:
            render_token(t)
            out += [(t, d, a, o) for d, a, o in t.descs]
        return out


def rand_layout(rnd, p=0.3):
    return {"al": ws(rnd, p), "c1": ws(rnd, p), "c2": rnd.choice(["", " ", " ", "  "]) if rnd.random() < 0.8 else ws(rnd, 1), "s1": ws(rnd, p), "s2": ws(rnd, p),
            "br": ws(rnd, p), "d1": "", "d2": ""}


@dataclass
class MolT:
    elems: list                   # TokenT | StochT
    mix: object = None            # None | text like ".|50%|"
    archetype: str = ""
    meta: dict = field(default_factory=dict)

    def text(self, ext=True):
        s = ""
        for e in self.elems:
            s += e.text(ext) if isinstance(e, StochT) else render_token(e, ext)
        if self.mix is not None:
            s += self.mix if ext else "."
        return s


def _w(rnd, p=0.4, zero_ok=False):
    if rnd.random() > p:
        return None
    v = rand_weight(rnd, zero_ok)
    return ("s", spell(rnd, v))


def _unit(rnd, dl, dr, size=(1, 5), palette=None, orders=None, extra=(), **kw):
    return make_token(rnd, [dl, dr] + list(extra), n_atoms=rnd.randint(*size), palette=palette, orders=orders, **kw)


def _end(rnd, d, size=(1, 3), palette=None, order=1):
    if rnd.random() < 0.25 and order == 1:
        tok = TokenT(Node("[H]", 1))
        if rnd.random() < 0.5:
            tok.lead = (1, d)
        else:
            tok.root.children.append((1, d))
        tok.root.used = 1
        render_token(tok)
        return tok
    return make_token(rnd, [d], n_atoms=rnd.randint(*size), palette=palette, orders=[order])


def _plain(rnd, size=(1, 4), palette=None, pre=True, app=True):
    """token without written descriptors; pre/app: a descriptor may be auto-inserted before / after it"""
    return make_token(rnd, [], n_atoms=rnd.randint(*size), palette=palette, kw_pre=pre, kw_app=app)


def _prefix_with_desc(rnd, d, o, pal):
    """plain token with a written descriptor of bond order o at its chain end (`C=[$]`)"""
    for _ in range(80):
        tok = make_token(rnd, [], n_atoms=rnd.randint(1, 3), palette=pal, multi_p=0.0, ring_p=0.0)
        n = tok.root
        while n.children and isinstance(n.children[-1][1], Node):
            n = n.children[-1][1]
        if n.free() < o:
            continue
        n.children.append((o, d))
        n.used += o
        render_token(tok)
        if chem_ok(tok):
            return tok
    raise RuntimeError("could not build prefix")


def token_mass_guess(tok):
    m = {"C": 12.011, "c": 12.011, "N": 14.007, "n": 14.007, "O": 15.999, "o": 15.999, "S": 32.06, "s": 32.06, "P": 30.97, "F": 19.0, "Cl": 35.45,
         "Br": 79.9, "I": 126.9, "B": 10.81, "[Si]": 28.09, "[N+]": 14.007, "[O-]": 15.999, "[13C]": 13.003, "[C@H]": 12.011, "[SiH2]": 28.09,
         "[NH+]": 14.007, "[H]": 0.0}
    render_token(tok)
    return sum(m.get(a, 12.0) for a in tok.atoms)


ARCHETYPES = ["homo", "random", "block", "alternating", "stepgrowth", "star", "graft", "hyper", "endinit2", "prefix_suffix", "connector",
              "multibond", "dollar_homo", "listweights", "leftlist", "mixedorder", "multikind", "listhandover", "orderprefix", "listterminate", "zeroside"]


def rand_molecule(rnd, archetype=None, small=True, families=None, palette=None, units=(1, 8)):
    """a generable, well-posed (by construction) molecule of the given archetype"""
    a = archetype or rnd.choice(ARCHETYPES)
    pal = palette
    did = rnd.choice([None, None, None, 1, 2, 12])

    def D(sym, w=None, i=did):
        return DescT(sym, i, w, ws(rnd, 0.2))

    def dist_for(units_tokens):
        um = max(8.0, sum(token_mass_guess(t) for t in units_tokens) / max(1, len(units_tokens)))
        return rand_dist(rnd, um, units, families)

    lay = lambda: rand_layout(rnd)
    if a in ("homo", "random", "dollar_homo"):
        nrep = 1 if a != "random" else rnd.randint(2, 3)
        dollar = (a == "dollar_homo") or rnd.random() < 0.2
        sl, sr = ("$", "$") if dollar else ("<", ">")
        reps = [_unit(rnd, D(sl, _w(rnd, 0.5 if a == "random" else 0.1)), D(sr, _w(rnd, 0.5 if a == "random" else 0.1)), palette=pal) for _ in range(nrep)]
        ends = [_end(rnd, D(sl, _w(rnd, 0.3)), palette=pal)]
        if not dollar:
            ends.append(_end(rnd, D(sr, _w(rnd, 0.3)), palette=pal))
        elif rnd.random() < 0.5:
            ends.append(_end(rnd, D("$", _w(rnd, 0.3)), palette=pal))
        st = StochT(None, reps, ends, None, dist_for(reps), lay())
        return MolT([st], None, a)
    if a == "endinit2":
        reps = [_unit(rnd, D("<"), D(">"), palette=pal)]
        ends = [_end(rnd, D("<", _w(rnd, 0.6)), palette=pal), _end(rnd, D("<", _w(rnd, 0.6)), palette=pal), _end(rnd, D(">", _w(rnd, 0.6)), palette=pal),
                _end(rnd, D(">", _w(rnd, 0.6)), palette=pal)]
        st = StochT(None, reps, ends, None, dist_for(reps), lay())
        return MolT([st], None, a)
    if a == "prefix_suffix":
        # prefix token (auto descriptor), one object, suffix token (auto descriptor)
        sl = rnd.choice(["<", ">", "$"])
        sr = conj(sl)
        nrep = rnd.randint(1, 2)
        reps = [_unit(rnd, D(conj(sl), _w(rnd, 0.3)), D(conj(sr), _w(rnd, 0.3)), palette=pal) for _ in range(nrep)]
        # open descriptor carried along has symbol sl; unit's partner is conj(sl) = first desc; the other desc has symbol sl again
        st = StochT(DescT(sl, did), reps, [], DescT(conj(sl) if sl != "$" else "$", did), dist_for(reps), lay())
        pre = _plain(rnd, palette=pal)
        suf = _plain(rnd, palette=pal)
        return MolT([pre, st, suf], None, a)
    if a in ("block", "connector"):
        sl = rnd.choice(["<", ">", "$"])
        nblocks = rnd.randint(2, 3)
        elems = [_plain(rnd, palette=pal)]
        for b in range(nblocks):
            reps = [_unit(rnd, D(conj(sl)), D(sl), palette=pal) for _ in range(rnd.randint(1, 2))]
            st = StochT(DescT(sl, did), reps, [], DescT(conj(sl), did), dist_for(reps), lay())
            elems.append(st)
            if a == "connector" and b < nblocks - 1:
                elems.append(_plain(rnd, palette=pal))
        elems.append(_plain(rnd, palette=pal))
        return MolT(elems, None, a)
    if a in ("alternating", "listweights", "listhandover"):
        # two units A, B with full transition lists (4 descriptors, + end groups when end initiated)
        # descriptors order: A.<, A.>, B.<, B.>   a '>' open end picks the '<' of the other unit
        big, zero = spell(rnd, rnd.choice([7.0, 8.0, 10.0])), "0"
        small_w = spell(rnd, rnd.choice([0.0, 1.0, 3.0, 0.5])) if a != "alternating" else "0"
        lA_lt = ("l", [zero, small_w, zero, big])      # A.< open -> partner must be '>' : A.> (idx1) or B.> (idx3)
        lA_gt = ("l", [small_w, zero, big, zero])      # A.> open -> A.< (0) or B.< (2)
        lB_lt = ("l", [zero, big, zero, small_w])
        lB_gt = ("l", [big, zero, small_w, zero])
        A = _unit(rnd, DescT("<", did, lA_lt), DescT(">", did, lA_gt), palette=pal, lead_p=1.0)
        B = _unit(rnd, DescT("<", did, lB_lt), DescT(">", did, lB_gt), palette=pal, lead_p=1.0)
        # written order of descriptors inside each token must be (<, >): enforce by regenerating
        for _ in range(40):
            render_token(A), render_token(B)
            if [d.sym for d, _, _ in A.descs] == ["<", ">"] and [d.sym for d, _, _ in B.descs] == ["<", ">"]:
                break
            A = _unit(rnd, DescT("<", did, lA_lt), DescT(">", did, lA_gt), palette=pal, lead_p=1.0)
            B = _unit(rnd, DescT("<", did, lB_lt), DescT(">", did, lB_gt), palette=pal, lead_p=1.0)
        else:
            return rand_molecule(rnd, "random", small, families, palette, units)
        st = StochT(DescT(">", did), [A, B], [], DescT("<", did), dist_for([A, B]), lay())
        if a == "listhandover":
            # a second object directly behind the first: the descriptor handed over carries a transition list of the FIRST object, which the
            # second object's (list-free) left terminal must replace; 1 unit (2 slots), 2 units (4 slots, the stale list's length) or end groups too
            n2 = rnd.choice([1, 2, 2])
            reps2 = [_unit(rnd, D("<", _w(rnd, 0.3)), D(">", _w(rnd, 0.3)), palette=pal) for _ in range(n2)]
            ends2 = [_end(rnd, D("<"), palette=pal)] if rnd.random() < 0.4 else []
            closed = bool(ends2) and rnd.random() < 0.5
            st2 = StochT(DescT(">", did, _w(rnd, 0.3)), reps2, ends2, None if closed else DescT("<", did), dist_for(reps2), lay())
            return MolT([_plain(rnd, palette=pal), st, st2] + ([] if closed else [_plain(rnd, palette=pal)]), None, a)
        return MolT([_plain(rnd, palette=pal), st, _plain(rnd, palette=pal)], None, a)
    if a == "stepgrowth":
        AA = _unit(rnd, D("<", _w(rnd, 0.2)), D("<", _w(rnd, 0.2)), palette=pal, size=(2, 6))
        BB = _unit(rnd, D(">", _w(rnd, 0.2)), D(">", _w(rnd, 0.2)), palette=pal, size=(2, 6))
        ends = [_end(rnd, D("<"), palette=pal), _end(rnd, D(">"), palette=pal)]
        st = StochT(None, [AA, BB], ends, None, dist_for([AA, BB]), lay())
        return MolT([st], None, a)
    if a == "star" or a == "hyper":
        # core unit entered through '$', arms of '<' ... '>' units, capped by '>' end groups
        narms = rnd.randint(2, 3)
        core = make_token(rnd, [D("$")] + [D("<", _w(rnd, 0.2)) for _ in range(narms)], n_atoms=rnd.randint(narms + 1, narms + 4), palette=pal, lead_p=0.3)
        arm_extra = [D("<")] if a == "hyper" and rnd.random() < 0.7 else []
        arm = make_token(rnd, [D(">"), D("<")] + arm_extra, n_atoms=rnd.randint(2, 5), palette=pal)
        ends = [_end(rnd, D(">"), palette=pal)]
        st = StochT(DescT("$", did), [core, arm], ends, None, dist_for([arm]), lay())
        pre = _plain(rnd, palette=pal)
        return MolT([pre, st], None, a)
    if a == "graft":
        # backbone with id 1, side chains with id 2
        bb = make_token(rnd, [DescT("<", 1, _w(rnd, 0.3)), DescT(">", 1, _w(rnd, 0.3)), DescT("<", 2, _w(rnd, 0.3))], n_atoms=rnd.randint(2, 5), palette=pal)
        bb2 = make_token(rnd, [DescT("<", 1), DescT(">", 1)], n_atoms=rnd.randint(1, 4), palette=pal)
        sc = make_token(rnd, [DescT(">", 2), DescT("<", 2)], n_atoms=rnd.randint(1, 4), palette=pal)
        ends = [_end(rnd, DescT("<", 1)), _end(rnd, DescT(">", 1)), _end(rnd, DescT(">", 2)), _end(rnd, DescT("<", 2))]
        st = StochT(None, [bb, bb2, sc], ends, None, dist_for([bb, bb2, sc]), lay())
        return MolT([st], None, a)
    if a == "multikind":
        # a non-empty right terminal while descriptors of BOTH directions are open at every finalisation: one fitting descriptor is
        # reserved for the terminal, the others (also those of the other direction) are capped
        unit = make_token(rnd, [D("<", _w(rnd, 0.3)), D("<", _w(rnd, 0.3)), D(">", _w(rnd, 0.3))], n_atoms=rnd.randint(2, 5), palette=pal)
        ends = [_end(rnd, D(">"), palette=pal), _end(rnd, D("<"), palette=pal)]
        st = StochT(DescT(">", did), [unit], ends, DescT(">", did), dist_for([unit]), lay())
        return MolT([_plain(rnd, palette=pal), st, _plain(rnd, palette=pal)], None, a)
    if a == "leftlist":
        # the left terminal carries a transition list (sum != 1): the prefix's open descriptor takes it over and the first partner is drawn
        # by the list; two units A(<,>) B(<,>) : slots A.< A.> B.< B.>
        wA = spell(rnd, rnd.choice([3.0, 2.0, 7.0]))
        wB = spell(rnd, rnd.choice([1.0, 0.5, 0.0]))
        A = _unit(rnd, D("<"), D(">"), palette=pal, lead_p=1.0)
        B = _unit(rnd, D("<", _w(rnd, 0.4)), D(">"), palette=pal, lead_p=1.0)
        for _ in range(40):
            render_token(A), render_token(B)
            if [d.sym for d, _, _ in A.descs] == ["<", ">"] and [d.sym for d, _, _ in B.descs] == ["<", ">"]:
                break
            A = _unit(rnd, D("<"), D(">"), palette=pal, lead_p=1.0)
            B = _unit(rnd, D("<", _w(rnd, 0.4)), D(">"), palette=pal, lead_p=1.0)
        else:
            return rand_molecule(rnd, "prefix_suffix", small, families, palette, units)
        left = DescT(">", did, ("l", [wA, "0", wB, "0"]), ws(rnd, 0.2))
        st = StochT(left, [A, B], [], DescT("<", did), dist_for([A, B]), lay())
        elems = [_plain(rnd, palette=pal), st]
        if rnd.random() < 0.5:
            # a second object directly behind the first, also with a listed left terminal
            C = _unit(rnd, D("<"), D(">"), palette=pal)
            left2 = DescT(">", did, ("l", [spell(rnd, rnd.choice([2.0, 10.0])), "0"] if [d.sym for d, _, _ in (render_token(C), C)[1].descs] == ["<", ">"] else ["0", spell(rnd, 2.0)]), "")
            elems.append(StochT(left2, [C], [], DescT("<", did), dist_for([C]), lay()))
        elems.append(_plain(rnd, palette=pal))
        return MolT(elems, None, a)
    if a == "mixedorder":
        # a branched unit whose descriptors prescribe different bond orders: several open descriptors of different order coexist
        o = rnd.choice([2, 2, 3])
        pal2 = [("C", 4, False)] * 6 + [("N", 3, False), ("O", 2, False)]
        for _ in range(30):
            try:
                unit = make_token(rnd, [D("$"), D("$"), D("$")], n_atoms=rnd.randint(3, 6), palette=pal2, orders=[o, 1, 1], multi_p=0.0, ring_p=0.0)
                unit2 = make_token(rnd, [D("$"), D("$")], n_atoms=rnd.randint(2, 4), palette=pal2, orders=[o, 1], multi_p=0.0, ring_p=0.0)
                e1 = make_token(rnd, [D("$")], n_atoms=rnd.randint(1, 3), palette=pal2, orders=[o], multi_p=0.0, ring_p=0.0)
                e2 = make_token(rnd, [D("$")], n_atoms=rnd.randint(1, 3), palette=pal2, orders=[1], multi_p=0.0, ring_p=0.0)
                break
            except RuntimeError:
                continue
        else:
            return rand_molecule(rnd, "multibond", small, families, palette, units)
        st = StochT(None, [unit, unit2], [e1, e2], None, dist_for([unit, unit2]), lay())
        return MolT([st], None, a)
    if a == "zeroside":
        # side descriptors of weight 0 that are only ever capped, next to a backbone descriptor kept for a NON-empty right terminal: at every
        # finalisation all descriptors to be capped have weight 0 (uniform pick among them), the kept one must not be among the options
        unit = make_token(rnd, [D("<", _w(rnd, 0.2)), DescT(">", did, ("s", spell(rnd, 0.0))), D(">", _w(rnd, 0.3))], n_atoms=rnd.randint(3, 6), palette=pal)
        extra = [make_token(rnd, [D("<"), DescT(">", did, ("s", "0")), D(">")], n_atoms=rnd.randint(3, 5), palette=pal)] if rnd.random() < 0.4 else []
        ends = [_end(rnd, D("<"), palette=pal)] + ([_end(rnd, D("<", _w(rnd, 0.5)), palette=pal)] if rnd.random() < 0.4 else [])
        st = StochT(DescT(">", did), [unit] + extra, ends, DescT("<", did), dist_for([unit] + extra), lay())
        return MolT([_plain(rnd, palette=pal), st, _plain(rnd, palette=pal)], None, a)
    if a == "listterminate":
        # transition lists with POSITIVE entries at end-group slots: the list itself may terminate the chain (slots: the descriptors of the
        # repeat units in written order, then those of the end groups)
        nrep = rnd.choice([1, 2])
        nend = rnd.choice([1, 2])
        nslots = 2 * nrep + nend
        reps = []
        for u in range(nrep):
            lst = []
            for k in range(nslots):
                if k < 2 * nrep:
                    lst.append(spell(rnd, rnd.choice([1.0, 3.0, 7.0, 0.5])) if k % 2 == 0 else "0")      # '<' slots of the units
                else:
                    lst.append(spell(rnd, rnd.choice([1.0, 2.0, 0.5, 0.0, 3.0])))                          # end-group slots
            if all(float(x.replace("_", "")) == 0 for x in lst[2 * nrep:]):
                lst[-1] = "2"
            for _ in range(40):
                U = _unit(rnd, D("<"), DescT(">", did, ("l", lst)), palette=pal, lead_p=1.0)
                render_token(U)
                if [d.sym for d, _, _ in U.descs] == ["<", ">"]:
                    break
            else:
                return rand_molecule(rnd, "random", small, families, palette, units)
            reps.append(U)
        ends = [_end(rnd, D("<"), palette=pal) for _ in range(nend)]
        st = StochT(DescT(">", did), reps, ends, None, dist_for(reps), lay())
        return MolT([_plain(rnd, palette=pal), st], None, a)
    if a == "orderprefix":
        # the prefix's open descriptor prescribes a double / triple bond while the left terminal is written without bond symbol:
        # the first bond of the object must be made with the PREFIX descriptor's order, to a unit descriptor of that order
        o = rnd.choice([2, 2, 3])
        pal2 = [("C", 4, False)] * 6 + [("N", 3, False), ("O", 2, False)]
        for _ in range(30):
            try:
                unit = make_token(rnd, [D("$", _w(rnd, 0.2)), D("$", _w(rnd, 0.2))], n_atoms=rnd.randint(2, 5), palette=pal2, orders=[o, 1], multi_p=0.0, ring_p=0.0)
                unit2 = make_token(rnd, [D("$"), D("$")], n_atoms=rnd.randint(1, 4), palette=pal2, orders=[1, 1], multi_p=0.0, ring_p=0.0)
                e1 = make_token(rnd, [D("$")], n_atoms=rnd.randint(1, 3), palette=pal2, orders=[o], multi_p=0.0, ring_p=0.0)
                e2 = make_token(rnd, [D("$")], n_atoms=rnd.randint(1, 3), palette=pal2, orders=[1], multi_p=0.0, ring_p=0.0)
                pre = _prefix_with_desc(rnd, DescT("$", did), o, pal2)
                break
            except RuntimeError:
                continue
        else:
            return rand_molecule(rnd, "multibond", small, families, palette, units)
        st = StochT(DescT("$", did), [unit, unit2], [e1, e2], None, dist_for([unit, unit2]), lay())
        return MolT([pre, st], None, a)
    if a == "multibond":
        o = rnd.choice([2, 2, 3])
        pal2 = [("C", 4, False)] * 6 + [("N", 3, False), ("O", 2, False)]
        dl, dr = D("<"), D(">")
        unit = make_token(rnd, [dl, dr], n_atoms=rnd.randint(2, 5), palette=pal2, orders=[o, o], multi_p=0.0, ring_p=0.0)
        e1 = make_token(rnd, [D("<")], n_atoms=rnd.randint(1, 3), palette=pal2, orders=[o], multi_p=0.0, ring_p=0.0)
        e2 = make_token(rnd, [D(">")], n_atoms=rnd.randint(1, 3), palette=pal2, orders=[o], multi_p=0.0, ring_p=0.0)
        st = StochT(None, [unit], [e1, e2], None, dist_for([unit]), lay())
        return MolT([st], None, a)
    raise ValueError(a)


def rand_token_for_parse(rnd, max_atoms=10, max_desc=4):
    """tokens for C02: any shape the notation allows (not necessarily usable for generation)"""
    nd = rnd.randint(0, max_desc)
    descs = []
    for _ in range(nd):
        sym = rnd.choice(["$", "<", ">"])
        i = rnd.choice([None, None, 0, 1, 7, 12, 123])
        r = rnd.random()
        if r < 0.5:
            w = None
        elif r < 0.8:
            w = ("s", spell(rnd, rand_weight(rnd, True)))
        else:
            k = rnd.randint(2, 6)
            w = ("l", [spell(rnd, rand_weight(rnd, True)) for _ in range(k)])
        descs.append(DescT(sym, i, w, ws(rnd, 0.3)))
    orders = [rnd.choice([1, 1, 1, 1, 2, 3]) for _ in descs]
    return make_token(rnd, descs, n_atoms=rnd.randint(1, max_atoms), orders=orders, ring_p=0.35, multi_p=0.25)
