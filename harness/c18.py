"""C18 — atom-graph generation yields trees of whole residues joined along graph edges."""
import random
import warnings

import numpy as np
from rdkit import Chem

import gbigsmiles
import gbigsmiles.graph_generate as gg
from gbigsmiles.distribution import SchulzZimm
from gbigsmiles.stochastic import Stochastic
from gbigsmiles.token import SmilesToken

import gen
import genrun
import sagadapt
from lib import Check, close, frac, unfrac
from rng import Recorder


def sz_cases(rnd, n):
    out = []
    tries = 0
    while len(out) < n and tries < 6 * n:
        tries += 1
        try:
            ast = gen.rand_molecule(rnd, families=["schulz_zimm"], units=(1, 5))
        except (RuntimeError, RecursionError):
            continue
        c = genrun.parse_case(ast.text(), ast.archetype, ast)
        if c is not None and sagadapt.is_schulz_zimm(c.mol) and all("[H]" not in str(t) for t in c.table.tokens):
            out.append(c)
    return out


class RecordingSZ(SchulzZimm):
    LOG = None

    def draw_mw(self, rng=None):
        v = float(super().draw_mw(rng))
        RecordingSZ.LOG.append(("draw", v))
        return v


def run_atomgen(sg, seed):
    rng = Recorder(seed)
    RecordingSZ.LOG = rng.log
    old = gg.SchulzZimm
    gg.SchulzZimm = RecordingSZ
    err = None
    ag = gbigsmiles.AtomGraph(sg, rng=rng)
    try:
        with warnings.catch_warnings():
            warnings.simplefilter("ignore")
            ag.generate()
    except Exception as exc:
        err = exc
    finally:
        gg.SchulzZimm = old
    return ag, err, list(rng.log)


def oracle(ck, case, sg, ag, inp):
    """whole residues, edges along graph edges with the same bond order, tree, sanitisable, connected"""
    G = ag.graph
    S = sg.graph
    # token (static component) of every stochastic node
    comp = {}
    static_edges = {}
    for u, v, d in S.edges(data=True):
        if d["static_weight"] != 0:
            static_edges[(u, v)] = d["bond_type"]
    import networkx as nx
    U = nx.Graph()
    U.add_nodes_from(S.nodes())
    U.add_edges_from(static_edges.keys())
    for k, cset in enumerate(nx.connected_components(U)):
        for n in cset:
            comp[n] = k
    comp_nodes = {}
    for n, k in comp.items():
        comp_nodes.setdefault(k, set()).add(n)
    # residue instances: a residue is created as one run of consecutive node ids (its seed atom, then the rest of its token);
    # a bond between two instances of the same token may join a node pair that is also a static pair of the token, so instances
    # cannot be told apart by the static pairs alone
    ids = sorted(G.nodes())
    inst = {}
    k = 0
    i = 0
    while i < len(ids):
        c = comp[G.nodes[ids[i]]["stochastic_node"]]
        size = len(comp_nodes[c])
        block = ids[i:i + size]
        snodes = sorted(G.nodes[n]["stochastic_node"] for n in block)
        if snodes != sorted(comp_nodes[c]):
            ck.fail("residue-not-whole", inp, f"the residue starting at generated atom {ids[i]} has the atoms {snodes} of the token whose atoms are {sorted(comp_nodes[c])}")
            return
        for n in block:
            inst[n] = k
        k += 1
        i += size
    inter = []
    have = {}
    for a, b, d in G.edges(data=True):
        sa, sb = G.nodes[a]["stochastic_node"], G.nodes[b]["stochastic_node"]
        if inst[a] == inst[b]:
            if (sa, sb) not in static_edges:
                ck.fail("bond-inside-residue-not-in-token", inp, f"{a}-{b} ({sa}-{sb})")
                return
            if int(static_edges[(sa, sb)]) != int(d["bond_type"]):
                ck.fail("static-bond-order", inp, f"generated bond {a}-{b} has type {d['bond_type']}, token bond {sa}-{sb} has {static_edges[(sa, sb)]}")
            have.setdefault(inst[a], set()).add(tuple(sorted((sa, sb))))
        else:
            inter.append((a, b, d))
    for n0, kk in inst.items():
        pass
    seen_inst = {}
    for n, kk in inst.items():
        seen_inst.setdefault(kk, comp[G.nodes[n]["stochastic_node"]])
    for kk, c in seen_inst.items():
        need = {tuple(sorted((u, v))) for (u, v) in static_edges if comp[u] == c}
        if need != have.get(kk, set()):
            ck.fail("residue-bonds-missing", inp, f"token bonds {sorted(need - have.get(kk, set()))} missing in residue instance {kk}")
            return
    # inter-residue edges correspond to non-static edges of the stochastic atom graph with the same bond order
    T = nx.Graph()
    T.add_nodes_from(set(inst.values()))
    for a, b, d in inter:
        sa, sb = G.nodes[a]["stochastic_node"], G.nodes[b]["stochastic_node"]
        ok = False
        for (x, y) in ((sa, sb), (sb, sa)):
            if S.has_edge(x, y):
                for dd in S.get_edge_data(x, y).values():
                    if dd["static_weight"] == 0 and int(dd["bond_type"]) == int(d["bond_type"]):
                        ok = True
        if not ok:
            ck.fail("bond-not-along-a-graph-edge", inp, f"generated bond {a}-{b} (stochastic nodes {sa}-{sb}, type {d['bond_type']}) has no non-static edge of that order in the stochastic atom graph")
            return
        if inst[a] == inst[b]:
            ck.fail("ring-inside-residue-by-stochastic-edge", inp, f"{a}-{b}")
            return
        if T.has_edge(inst[a], inst[b]):
            ck.fail("two-bonds-between-residues", inp, f"{a}-{b}")
        T.add_edge(inst[a], inst[b])
    if T.number_of_nodes() and (not nx.is_connected(T) or T.number_of_edges() != T.number_of_nodes() - 1):
        ck.fail("residues-do-not-form-a-tree", inp, f"{T.number_of_nodes()} residues, {T.number_of_edges()} inter-residue bonds, connected={nx.is_connected(T)}")
    try:
        mol = ag.to_mol()
        if len(Chem.GetMolFrags(mol)) != 1:
            ck.fail("molecule-not-connected", inp, Chem.MolToSmiles(mol))
        return Chem.MolToSmiles(mol)
    except Exception as exc:
        charged = any(n[1]["formal_charge"] != 0 for n in S.nodes(data=True)) or any(n[1]["aromatic"] for n in S.nodes(data=True))
        ck.fail("to_mol-fails", inp, f"{type(exc).__name__}: {exc}", "to-mol-drops-charges-and-aromaticity" if charged else None)
    return None


def main():
    ck = Check("C18")
    ck.do_build()
    rnd = random.Random(ck.seed + 18)
    quick = ck.tier == "quick"
    cases = [c for c in genrun.corpus_cases() if sagadapt.is_schulz_zimm(c.mol)]
    if quick:
        rnd.shuffle(cases)
        cases = cases[:10]
    cases += sz_cases(rnd, 120 if quick else 4000)
    # one atom carrying two descriptors of DIFFERENT bond order, each with its own end group: the bond to an end group has the order of the
    # edge that was drawn, not of any other termination edge of that atom (several seeds each: which edge is drawn is random)
    for text in ["{[] [<]CCC(=[$|0|])[>]; [$]=O, [<][H], [>]N []}|schulz_zimm(400, 300)|",
                 "{[] [<]CCC(=[$|0|])[>]; [$]=O, [<]CC#N, [>]N []}|schulz_zimm(400, 300)|",
                 "{[] [<]CC(=[$|0|])[>]; [<]F, [$]=S, [>]Cl []}|schulz_zimm(300, 200)|",
                 "{[] [<]CCC(#[$1|0|])[>]; [$1]#N, [<]C, [>]O []}|schulz_zimm(350, 250)|"]:
        c = genrun.parse_case(text, "mixedorder")
        if c is not None:
            cases += [c] * (6 if quick else 30)
    ops, keep = [], []
    for ci, case in enumerate(cases):
        with warnings.catch_warnings():
            warnings.simplefilter("ignore")
            try:
                sg = case.mol.gen_stochastic_atom_graph(True)
            except Exception as exc:
                ck.note(f"stochastic atom graph raises {type(exc).__name__} on {case.text[:80]}")
                continue
        els = sagadapt.aelems_json(case.mol, True)
        for s in range(2 if quick else 4):
            seed = ck.seed * 1009 + ci * 17 + s
            ag, err, log = run_atomgen(sg, seed)
            inp = {"text": case.text, "seed": seed, "history": genrun.history(log)[:60]}
            ck.case((case.text, tuple(genrun.history(log))), nontrivial=err is None and ag.graph is not None and len(ag.graph) > 1,
                    sample={"text": case.text, "atoms": None if ag.graph is None else len(ag.graph)})
            ck.count("archetype:" + case.archetype)
            if err is not None:
                if isinstance(err, RuntimeError) and "single source" in str(err):
                    ck.count("no-start-node")
                else:
                    ck.fail("generation-raises", inp, f"{type(err).__name__}: {err}")
            else:
                smi = oracle(ck, case, sg, ag, inp)
                # equal seeds give equal molecules
                ag2, err2, log2 = run_atomgen(sg, seed)
                if err2 is None:
                    same = sorted((a, b, d["bond_type"]) for a, b, d in ag.graph.edges(data=True)) == sorted((a, b, d["bond_type"]) for a, b, d in ag2.graph.edges(data=True)) \
                        and [ag.graph.nodes[n]["stochastic_node"] for n in ag.graph] == [ag2.graph.nodes[n]["stochastic_node"] for n in ag2.graph]
                    if not same:
                        ck.fail("equal-seeds-different-molecules", inp, "two runs with the same seed differ")
            from genadapt import events_json
            ops.append({"op": "AGEN", "els": els, "ev": events_json(log), "fuel": 5000})
            keep.append((inp, ag, err, log))
    outs = ck.driver.run(ops)
    for (inp, ag, err, log), out in zip(keep, outs):
        # side condition of C18_bonds_follow_graph: evaluated by the model for every graph of the run
        if out.get("closed") is not True:
            ck.mismatch("AGEN.side-condition fillClosed", inp, "theorem applies", out.get("closed"))
        else:
            ck.count("fillClosed:true")
        if err is not None:
            if out.get("ok"):
                ck.mismatch("AGEN", inp, f"raises {type(err).__name__}: {str(err)[:80]}", "ok")
            continue
        if not out.get("ok"):
            ck.mismatch("AGEN", inp, "ok", out)
            continue
        G = ag.graph
        nodes = [[int(G.nodes[n]["stochastic_node"]), int(G.nodes[n]["atomic_num"])] for n in G]
        edges = sorted((min(a, b), max(a, b), int(d["bond_type"])) for a, b, d in G.edges(data=True))
        medges = sorted((min(a, b), max(a, b), t) for a, b, t in out["edges"])
        if nodes != out["nodes"]:
            ck.mismatch("AGEN.nodes", inp, nodes[:12], out["nodes"][:12])
            continue
        if edges != medges:
            ck.mismatch("AGEN.edges", inp, [e for e in edges if e not in medges][:5], [e for e in medges if e not in edges][:5])
            continue
        if len(ag.mw) != len(out["mw"]) or not all(close(a, unfrac(b), 1e-9, 1e-9) for a, b in zip(ag.mw, out["mw"])):
            ck.mismatch("AGEN.mw", inp, ag.mw, [float(unfrac(x)) for x in out["mw"]])
        ch_i = [x for x in log if x[0] == "choice"]
        ch_m = [t["c"] for t in out["trace"] if "c" in t]
        if len(ch_i) != len(ch_m) or out["rest"] != 0:
            ck.mismatch("AGEN.choice-count", inp, len(ch_i), (len(ch_m), out["rest"]))
        else:
            for k, (a, b) in enumerate(zip(ch_i, ch_m)):
                if a[1] != b["a"] or a[3] != b["r"] or not all(close(x, unfrac(y), 1e-9, 1e-12) for x, y in zip(a[2], b["p"])):
                    ck.mismatch("AGEN.choice", dict(inp, call=k), {"a": a[1], "p": a[2][:6], "r": a[3]}, {"a": b["a"], "p": [float(unfrac(y)) for y in b["p"]][:6], "r": b["r"]})
                    break
    ck.rule = ("one case = one AtomGraph.generate() run (Schulz-Zimm molecules: corpus + all archetypes incl. multi-atom end groups and transition lists) with a recorded "
               "random history; the generated graph (nodes with stochastic_node, edges with bond_type, mw list, every rng.choice call) is compared with the Lean state "
               "machine; oracle: whole residues, inter-residue bonds along non-static graph edges of the same order, tree, to_mol sanitises and is connected, equal "
               "seeds give equal molecules; non-trivial = more than one atom; distinct by (string, history)")
    ck.extra["assumptions"] = ["NetworkX iteration orders (out_edges grouped by neighbour, dfs_tree preorder) as modelled", "RDKit sanitisation in to_mol(): oracle only"]
    ck.finish()


if __name__ == "__main__":
    main()
