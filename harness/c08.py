"""C08 — every random decision follows the weights written in the notation."""
import random

import genrun
from genrun import spec_compatible_bd
from gbigsmiles.stochastic import Stochastic
from gbigsmiles.token import SmilesToken
from lib import Check, close, unfrac
from rng import Recorder


def law(weights):
    """the property's selection law: proportional to the weights; equal weights (also all zero) mean uniform"""
    k = len(weights)
    if k == 0:
        return []
    if all(w == weights[0] for w in weights):
        return [1.0 / k] * k
    tot = sum(weights)
    return [w / tot for w in weights]


def kind_of(case, call):
    lo = call["list_obj"]
    for el in case.mol._elements:
        if isinstance(el, Stochastic):
            if lo is el.repeat_bonds:
                return "partner"
            if lo is el.end_bonds:
                return "start" if call["bond"] is None else "cap"
        elif isinstance(el, SmilesToken):
            pass
    if call["bond"] is None:
        return "open"
    # list of a MolGen: reserve (finalize) or hand-over (token.generate: list = fresh MolGen of the token)
    return "reserve-or-handover"


def oracle_c08(rec):
    out = []
    case = rec["case"]
    log = rec["log"]
    inp = {"text": case.text, "history": genrun.history(log)[:80]}
    calls = rec["obs"].chooses
    choice_pos = [i for i, x in enumerate(log) if x[0] == "choice"]
    # the weight each descriptor was WRITTEN with, by (position in its object, printed form without extension, bond characters)
    written = {}
    for el in case.mol._elements:
        toks = (el.repeat_tokens + el.end_tokens) if isinstance(el, Stochastic) else [el]
        for tk in toks:
            for bd in tk.bond_descriptors:
                written.setdefault((bd.descriptor_num, bd.generate_string(False), str(bd.preceding_characters)), set()).add(float(bd.weight))
    claimed = set()
    kinds = {}
    for c in calls:
        # the rng.choice call made by this choose call = first choice entry at or after log_index
        pos = next((i for i in choice_pos if i >= c["log_index"]), None)
        want_idx = [i for i, b in enumerate(c["bds"]) if c["bond"] is None or spec_compatible_bd(c["bond"], b)]
        k = kind_of(case, c)
        kinds[k] = kinds.get(k, 0) + 1
        if c["error"] is not None:
            if want_idx and any(w > 0 for w in [c["w"][i] for i in want_idx]) or (want_idx and all(c["w"][i] == c["w"][want_idx[0]] for i in want_idx)):
                out.append(("choose-raises-with-options", inp, f"{k}: options {want_idx} weights {[c['w'][i] for i in want_idx]} but {c['error']}", None))
            continue
        if pos is None:
            out.append(("choose-without-choice", inp, f"{k}", None))
            continue
        claimed.add(pos)
        _, a, p, r = log[pos]
        if k == "open" and len(c["bds"]) > 1:
            # the open descriptors of the growing molecule are offered with the weights they were written with (a single open descriptor may
            # carry the left terminal's weight: the transfer is checked below)
            for i, b in enumerate(c["bds"]):
                ws_ = written.get((b.descriptor_num, b.generate_string(False), str(b.preceding_characters)))
                if ws_ is not None and len(ws_) == 1 and not close(c["w"][i], next(iter(ws_))):
                    out.append(("offered-weight-differs-from-written", inp, f"open pick over {len(c['bds'])} descriptors: descriptor #{i} ({b.generate_string(False)}, "
                                f"position {b.descriptor_num}) is offered with weight {c['w'][i]} but was written with {next(iter(ws_))}", None))
                    break
        if c.get("site") == "token" and c["bond"] is not None:
            # hand-over to a plain token: the prefix's open descriptor is offered ALL descriptors of that token, as written
            key = lambda b: (b.descriptor_num, b.generate_string(False), str(b.preceding_characters), float(b.weight))
            offered = [key(b) for b in c["bds"]]
            tokens = [[key(b) for b in el.bond_descriptors] for el in case.mol._elements if isinstance(el, SmilesToken)]
            if tokens and offered not in tokens:
                out.append(("handover-list-is-not-the-tokens-descriptor-list", inp, f"descriptors offered at a hand-over: {offered}; the plain tokens of the molecule carry {tokens}", None))
                continue
        want_p = law([c["w"][i] for i in want_idx])
        if a != want_idx:
            out.append(("options", inp, f"{k} pick: options handed to the generator {a}, compatible descriptors {want_idx}", None))
            continue
        if len(p) != len(want_p) or not all(close(x, y) for x, y in zip(p, want_p)):
            out.append(("probabilities", inp, f"{k} pick over {a}: weights {[c['w'][i] for i in want_idx]} -> expected {want_p}, generator was given {p}", None))
            continue
        if r not in a or p[a.index(r)] <= 0:
            out.append(("zero-probability-taken", inp, f"{k}: result {r} of {a} with {p}", None))
        # growth: the pick that follows an open descriptor carrying a list must use the list (README step 3.1);
        # capping picks among the end groups by weight whatever the list says (README step 7)
        if c["bond"] is None and c["result"] is not None and c["trans"][c["result"]] is not None and k == "open":
            ci = calls.index(c)
            nxt_call = calls[ci + 1] if ci + 1 < len(calls) else None
            nxt = next((i for i in choice_pos if i > pos), None)
            tl = c["trans"][c["result"]]
            nxt_kind = kind_of(case, nxt_call) if nxt_call is not None else None
            if nxt_kind == "cap":
                pass
            elif nxt is not None and (nxt_call is None or nxt_call["log_index"] > nxt):
                claimed.add(nxt)
                _, a2, p2, r2 = log[nxt]
                tot = sum(tl)
                want2 = [x / tot for x in tl] if tot else None
                if a2 != list(range(len(tl))) or want2 is None or not all(close(x, y) for x, y in zip(p2, want2)):
                    out.append(("transition-list", inp, f"open descriptor lists {tl}; generator was given options {a2} probabilities {p2}", None))
                elif p2[a2.index(r2)] <= 0:
                    out.append(("zero-probability-taken", inp, f"list pick {r2} with {p2}", None))
                kinds["list"] = kinds.get("list", 0) + 1
            elif nxt is not None:
                out.append(("transition-list-ignored", inp, f"open descriptor carries {tl} but the partner was picked by weights ({nxt_kind})", None))
    for i in choice_pos:
        if i not in claimed:
            out.append(("unexplained-choice", inp, f"rng.choice call #{i}: {log[i][1:]}", None))
    # transfer of the left terminal's weight / list onto the prefix's open descriptor
    st = [e for e in case.mol._elements if isinstance(e, Stochastic)]
    draws = [i for i, x in enumerate(log) if x[0] == "draw"]
    for j, dpos in enumerate(draws):
        if j >= len(st):
            break
        first = next((c for c in calls if c["log_index"] > dpos and c["bond"] is None and kind_of(case, c) == "open"), None)
        el = st[j]
        if first is not None and str(el.left_terminal) != "[]" and len(first["bds"]) == 1:
            lt = el.left_terminal
            tl = None if lt.transitions is None else [float(x) for x in lt.transitions]
            if not close(first["w"][0], float(lt.weight)) or first["trans"][0] != tl:
                out.append(("transfer", inp, f"object {j}: prefix descriptor has weight {first['w'][0]} list {first['trans'][0]}, left terminal {float(lt.weight)} {tl}", None))
    rec["kinds"] = kinds
    return out


def bounded_cases(rnd, n):
    """small instances whose complete decision tree is enumerated"""
    texts = [
        ("{[][<|2|]CC[>], [<]C(N)C[>]; [<]O, [>]F []}|uniform(0, 100)|", [55.0]),
        ("{[][$]CC[$], [$|3|]C(O)C[$|0.5|]; [$]N, [$|2|]F []}|uniform(0, 100)|", [40.0]),
        ("C{[>][<|0 7 0 3|]CC[>|7 0 3 0|], [<|0 3 0 7|]CO[>|3 0 7 0|] [<]}|uniform(0, 100)|N", [60.0]),
        ("N{[$][$]CC[$], [$|0|]C([$])C[$|0|]; [$]O [$]}|uniform(0, 100)|F", [30.0]),
        ("{[][<]CC[>]; [<|0|]O, [<|0|]N, [>]F []}|uniform(0, 100)|", [30.0]),
        ("O{[<][>]CC[<|2|], [>|3|]C(C)C[<] [>]}|uniform(0,90)|{[<][>]CO[<] [>]}|uniform(0, 50)|S", [45.0, 20.0]),
    ]
    out = []
    for t, f in texts:
        c = genrun.parse_case(t, "bounded")
        if c is not None:
            out.append((c, f))
    rnd.shuffle(out)
    return out[:n]


def main():
    ck = Check("C08")
    ck.do_build()
    rnd = random.Random(ck.seed + 8)
    quick = ck.tier == "quick"
    cases = genrun.corpus_cases()
    if quick:
        rnd.shuffle(cases)
        cases = cases[:25]
    cases += genrun.gen_cases(rnd, 220 if quick else 4000)
    recs = genrun.run_batch(ck, cases, seeds_per_case=2 if quick else 4, what=("choices",), seed_base=ck.seed * 32452843 + 8,
                            oracles=[oracle_c08], forced=genrun.cap_targets)
    for rec in recs:
        n = sum(1 for x in rec["log"] if x[0] == "choice")
        ck.case((rec["case"].text, tuple(genrun.history(rec["log"]))), nontrivial=n > 0,
                sample={"text": rec["case"].text, "first_choices": [[x[1], [round(y, 4) for y in x[2]], x[3]] for x in rec["log"] if x[0] == "choice"][:4]})
        ck.count("choice_calls", n)
    # complete decision trees of bounded instances
    total_paths = 0
    for case, forced in bounded_cases(rnd, 4 if quick else 6):
        ptotal = 0.0
        outcomes = {}
        ops, prs = [], []
        complete = False
        for rec, p in genrun.enumerate_paths(case, forced, max_paths=600 if quick else 20000, seed=ck.seed):
            total_paths += 1
            for f in oracle_c08(rec):
                ck.fail(*f)
            ptotal += p
            if rec["error"] is None:
                try:
                    smi = rec["run"].molgen.smiles
                except Exception:
                    smi = "?"
                outcomes[smi] = outcomes.get(smi, 0.0) + p
            ops.append(genrun.model_gen_op(case.els, genrun.untie_events(rec["log"])))
            prs.append((rec, p))
            complete = rec["complete"]
        ck.count("enumerated_paths", len(prs))
        if complete and abs(ptotal - 1.0) > 1e-9:
            ck.fail("tree-not-normalised", {"text": case.text, "forced": forced}, f"path probabilities of the complete decision tree sum to {ptotal!r}")
        if not complete:
            ck.note(f"decision tree of {case.text} truncated at {len(prs)} paths (sum so far {ptotal:.6f})")
        outs = ck.driver.run(ops)
        mtotal = 0.0
        for (rec, p), out in zip(prs, outs):
            rec["model"] = out
            genrun.compare(ck, rec, out, ("choices",))
            if out.get("ok"):
                mp = 1.0
                for t in out["trace"]:
                    if "c" in t:
                        mp *= float(unfrac(t["c"]["p"][t["c"]["a"].index(t["c"]["r"])]))
                mtotal += mp
                if not close(mp, p):
                    ck.mismatch("GEN.path-probability", {"text": case.text, "script": rec["script"]}, p, mp)
        ck.case(("tree", case.text), nontrivial=True, sample={"text": case.text, "forced_targets": forced, "paths": len(prs), "sum": ptotal,
                                                              "outcomes": dict(list(sorted(outcomes.items(), key=lambda kv: -kv[1]))[:4])})
    ck.rule = ("one case = one real generation: every choose call and every rng.choice call is checked against the selection law computed from the "
               "descriptors' weights; plus the complete decision trees (scripted generator, all choice sequences) of bounded instances; "
               "non-trivial = at least one choice call; distinct by (string, history)")
    ck.extra["assumptions"] = ["numpy Generator.choice(a, p) returns an element of a with positive probability; long-run frequencies are not used to decide"]
    ck.finish()


if __name__ == "__main__":
    main()
