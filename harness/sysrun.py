"""observed runs of System.generator / System.generate and the SYSGEN model op (C13, C14)"""
import contextlib
import io
import random
import warnings

import numpy as np
from rdkit import Chem

import gbigsmiles
from gbigsmiles.stochastic import Stochastic

import gen
import genrun
from genadapt import TokenTable, element_json, events_json, frag_info
from lib import close, frac, unfrac
from rng import Recorder

MARKERS = ["F", "Cl", "Br", "I"]
MARK_NUM = {"F": 9, "Cl": 17, "Br": 35, "I": 53}


def marked_component(rnd, marker, kind):
    """a component whose every molecule contains `marker` and no other marker atom"""
    pal = [("C", 4, False)] * 8 + [("N", 3, False), ("O", 2, False)]
    if kind == "small":
        return rnd.choice(["C", "CC", "CCO", "CCN", "CCCC", "C(C)C", "OCCO"]) + marker
    if kind == "listclose":
        # a transition list that may cap the chain DURING growth although a suffix is still to come: such a history has no complete
        # molecule (the library raises); the marker sits in the SUFFIX, so a truncated molecule is recognisably not a member
        w1, w2 = rnd.choice(["7", "3.0", "1"]), rnd.choice(["0.3", "1", ".5"])
        unit = rnd.choice(["CC", "C(C)C", "CO", "CCN"])
        return f"{rnd.choice(['N', 'CC', 'OC'])}{{[>] [<]{unit}[>|{w1} 0 {w2}|]; [<]O [<]}}|uniform({rnd.choice([30, 60])}, {rnd.choice([90, 150])})|C{marker}"
    if kind == "endinit":
        for _ in range(20):
            ast = gen.rand_molecule(rnd, rnd.choice(["homo", "random", "endinit2", "stepgrowth"]), palette=pal, units=(1, 4))
            txt = ast.text()
            if "[H]" in txt:
                continue
            # put the marker on every end group by appending a marked carbon to one plain end token is not generic: use prefix form instead
            break
    # prefix ... suffix molecule, marker in the prefix token
    for _ in range(20):
        ast = gen.rand_molecule(rnd, rnd.choice(["prefix_suffix", "block", "alternating"]), palette=pal, units=(1, 4))
        pre = ast.elems[0]
        if not isinstance(pre, gen.TokenT):
            continue
        t = ast.text()
        return "C(" + marker + ")" + t
    return "CC" + marker


def build_system(rnd, ncomp, mass_scale):
    comps = []
    marks = MARKERS[:]
    rnd.shuffle(marks)
    for i in range(ncomp):
        kind = rnd.choice(["small", "poly", "poly", "listclose"])
        comps.append((marks[i], marked_component(rnd, marks[i], kind)))
    # percentages: whole numbers, halves / quarters / eighths (exact in binary64), and now and then a component below 1 %
    den = rnd.choice([1, 1, 2, 4, 8])
    cuts = sorted(rnd.sample(range(1, 100 * den), ncomp - 1)) if ncomp > 1 else []
    if ncomp > 1 and den > 1 and rnd.random() < 0.3:
        cuts[0] = rnd.randint(1, den - 1)
        cuts = sorted(set(cuts))
        while len(cuts) < ncomp - 1:
            cuts = sorted(set(cuts + [rnd.randint(1, 100 * den - 1)]))
    fr = [(b - a) / den for a, b in zip([0] + cuts, cuts + [100 * den])]
    M = float(mass_scale)
    mode = rnd.choice(["pct+abs", "abs", "pct"])
    if ncomp > 1 and mode != "abs" and rnd.random() < 0.2:
        # a component declared 0 % (the end point of a composition scan), not the last one: it is never drawn and the others keep their places
        i = rnd.randrange(ncomp - 1)
        j = rnd.choice([k for k in range(ncomp) if k != i])
        fr[j] += fr[i]
        fr[i] = 0.0
    text = ""
    for i, ((mk, t), f) in enumerate(zip(comps, fr)):
        if mode == "abs" or (mode == "pct+abs" and i == ncomp - 1):
            text += t + f".|{f * M / 100!r}|"
        elif mode == "pct" and i == ncomp - 1:
            text += t
        else:
            text += t + f".|{float(f)!r}%|"
    sysmass = M if mode == "pct" else None
    return text, sysmass, [m for m, _ in comps], fr


def parse_system(text, sysmass):
    with warnings.catch_warnings():
        warnings.simplefilter("ignore")
        try:
            s = gbigsmiles.System(text, sysmass)
        except Exception:
            return None
    return s


def system_json(system):
    comps = []
    tables = []
    for mol in system._molecules:
        table = TokenTable()
        els = [element_json(e, table) for e in mol._elements]
        tables.append(table)
        rel = mol.mixture.relative_mass if mol.mixture is not None else None
        comps.append({"els": els, "rel": frac(rel if rel is not None else 0.0), "gen": bool(mol.generable)})
    return comps, tables


def run_system(system, rng, single=False, max_members=400, stop_after=None):
    """iterate System.generator (or call System.generate) with the recording generator"""
    wrapped = []
    draws = []
    for mol in system._molecules:
        for el in mol._elements:
            if isinstance(el, Stochastic) and el.distribution is not None:
                d = el.distribution
                orig = d.draw_mw

                def wrapper(rng_=None, _orig=orig):
                    v = float(_orig(rng_))
                    rng.log.append(("draw", v))
                    draws.append(v)
                    return v
                d.draw_mw = wrapper
                wrapped.append(d)
    old = gbigsmiles.System.generator.fget.__defaults__
    members = []
    error = None
    try:
        with contextlib.redirect_stdout(io.StringIO()), warnings.catch_warnings():
            warnings.simplefilter("ignore")
            if single:
                members.append(system.generate(rng=rng))
            else:
                gbigsmiles.System.generator.fget.__defaults__ = (rng,)
                for mg in system.generator:
                    members.append(mg)
                    if stop_after is not None and len(members) >= stop_after:
                        break       # the consumer abandons the iteration
                    if len(members) > max_members:
                        raise RuntimeError("harness: too many members")
    except Exception as exc:
        error = exc
    finally:
        gbigsmiles.System.generator.fget.__defaults__ = old
        for d in wrapped:
            try:
                del d.draw_mw
            except AttributeError:
                pass
    return members, error, list(rng.log)


def member_info(mg):
    mol = mg._mol
    nums = sorted(set(a.GetAtomicNum() for a in mol.GetAtoms()))
    return {"mass": float(mg.weight), "full": bool(mg.fully_generated), "n": len(mg.graph), "nums": nums,
            "markers": [m for m in MARKERS if MARK_NUM[m] in nums]}
