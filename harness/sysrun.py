"""observed runs of System.generator / System.generate and the SYSGEN model op (C13, C14)"""
import contextlib
import io
import random
import warnings

import numpy as np
from rdkit import Chem

import gbigsmiles
from gbigsmiles.stochastic import Stochastic

import gen
import genrun
from genadapt import TokenTable, element_json, events_json, frag_info
from lib import close, frac, unfrac
from rng import Recorder

MARKERS = ["F", "Cl", "Br", "I"]
MARK_NUM = {"F": 9, "Cl": 17, "Br": 35, "I": 53}


def marked_component(rnd, marker, kind):
    """a component whose every molecule contains `marker` and no other marker atom"""
    pal = [("C", 4, False)] * 8 + [("N", 3, False), ("O", 2, False)]
    if kind == "small":
        return rnd.choice(["C", "CC", "CCO", "CCN", "CCCC", "C(C)C", "OCCO"]) + marker
    if kind == "endinit":
        for _ in range(20):
            ast = gen.rand_molecule(rnd, rnd.choice(["homo", "random", "endinit2", "stepgrowth"]), palette=pal, units=(1, 4))
            txt = ast.text()
            if "[H]" in txt:
                continue
            # put the marker on every end group by appending a marked carbon to one plain end token is not generic: use prefix form instead
            break
    # prefix ... suffix molecule, marker in the prefix token
    for _ in range(20):
        ast = gen.rand_molecule(rnd, rnd.choice(["prefix_suffix", "block", "alternating"]), palette=pal, units=(1, 4))
        pre = ast.elems[0]
        if not isinstance(pre, gen.TokenT):
            continue
        t = ast.text()
        return "C(" + marker + ")" + t
    return "CC" + marker


def build_system(rnd, ncomp, mass_scale):
    comps = []
    marks = MARKERS[:]
    rnd.shuffle(marks)
    for i in range(ncomp):
        kind = rnd.choice(["small", "poly", "poly"])
        comps.append((marks[i], marked_component(rnd, marks[i], kind)))
    cuts = sorted(rnd.sample(range(1, 100), ncomp - 1)) if ncomp > 1 else []
    fr = [b - a for a, b in zip([0] + cuts, cuts + [100])]
    M = float(mass_scale)
    mode = rnd.choice(["pct+abs", "abs", "pct"])
    text = ""
    for i, ((mk, t), f) in enumerate(zip(comps, fr)):
        if mode == "abs" or (mode == "pct+abs" and i == ncomp - 1):
            text += t + f".|{f * M / 100!r}|"
        elif mode == "pct" and i == ncomp - 1:
            text += t
        else:
            text += t + f".|{float(f)!r}%|"
    sysmass = M if mode == "pct" else None
    return text, sysmass, [m for m, _ in comps], fr


def parse_system(text, sysmass):
    with warnings.catch_warnings():
        warnings.simplefilter("ignore")
        try:
            s = gbigsmiles.System(text, sysmass)
        except Exception:
            return None
    return s


def system_json(system):
    comps = []
    tables = []
    for mol in system._molecules:
        table = TokenTable()
        els = [element_json(e, table) for e in mol._elements]
        tables.append(table)
        rel = mol.mixture.relative_mass if mol.mixture is not None else None
        comps.append({"els": els, "rel": frac(rel if rel is not None else 0.0), "gen": bool(mol.generable)})
    return comps, tables


def run_system(system, rng, single=False, max_members=400):
    """iterate System.generator (or call System.generate) with the recording generator"""
    wrapped = []
    draws = []
    for mol in system._molecules:
        for el in mol._elements:
            if isinstance(el, Stochastic) and el.distribution is not None:
                d = el.distribution
                orig = d.draw_mw

                def wrapper(rng_=None, _orig=orig):
                    v = float(_orig(rng_))
                    rng.log.append(("draw", v))
                    draws.append(v)
                    return v
                d.draw_mw = wrapper
                wrapped.append(d)
    old = gbigsmiles.System.generator.fget.__defaults__
    members = []
    error = None
    try:
        with contextlib.redirect_stdout(io.StringIO()), warnings.catch_warnings():
            warnings.simplefilter("ignore")
            if single:
                members.append(system.generate(rng=rng))
            else:
                gbigsmiles.System.generator.fget.__defaults__ = (rng,)
                for mg in system.generator:
                    members.append(mg)
                    if len(members) > max_members:
                        raise RuntimeError("harness: too many members")
    except Exception as exc:
        error = exc
    finally:
        gbigsmiles.System.generator.fget.__defaults__ = old
        for d in wrapped:
            try:
                del d.draw_mw
            except AttributeError:
                pass
    return members, error, list(rng.log)


def member_info(mg):
    mol = mg._mol
    nums = sorted(set(a.GetAtomicNum() for a in mol.GetAtoms()))
    return {"mass": float(mg.weight), "full": bool(mg.fully_generated), "n": len(mg.graph), "nums": nums,
            "markers": [m for m in MARKERS if MARK_NUM[m] in nums]}
