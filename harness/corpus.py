"""notation strings documented in README.md, SI.md and tests/*.py of /repo (read at run time), plus /verif/corpus/*.txt"""
import glob
import os
import re

from lib import REPO, VERIF

_STR = re.compile(r'"((?:[^"\\\n]|\\.)*)"')


def raw_strings():
    out = []
    files = [os.path.join(REPO, "README.md"), os.path.join(REPO, "SI.md")] + sorted(glob.glob(os.path.join(REPO, "tests", "*.py")))
    for f in files:
        try:
            text = open(f).read()
        except OSError:
            continue
        for m in _STR.finditer(text):
            s = m.group(1)
            if "\\" in s:
                try:
                    s = bytes(s, "utf-8").decode("unicode_escape")
                except Exception:
                    continue
            out.append(s)
    for f in sorted(glob.glob(os.path.join(VERIF, "corpus", "*.txt"))):
        for line in open(f):
            line = line.rstrip("\n")
            if line and not line.startswith("#"):
                out.append(line)
    seen = set()
    res = []
    for s in out:
        if s not in seen and 0 < len(s) < 600 and re.search(r"[A-Za-z\[\{]", s):
            seen.add(s)
            res.append(s)
    return res


def notation_strings():
    """strings that look like notation: contain a stochastic object, a descriptor, a mixture or are plain SMILES-like"""
    res = []
    for s in raw_strings():
        if "{" in s or re.search(r"\[[$<>]", s) or ".|" in s:
            if "str(" in s or "+" in s and "{" not in s:
                continue
            res.append(s)
    return res


if __name__ == "__main__":
    for s in notation_strings():
        print(s)
