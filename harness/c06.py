"""C06 — well-posed molecules generate to completion, in the written element order."""
import random
import re

import genrun
from gbigsmiles.stochastic import Stochastic
from gbigsmiles.token import SmilesToken
from lib import Check


def element_of_token(case):
    """token object id -> (element index, kind) with kind in tok / rep / end"""
    out = {}
    for e, el in enumerate(case.mol._elements):
        if isinstance(el, SmilesToken):
            out[id(el)] = (e, "tok")
        else:
            for t in el.repeat_tokens:
                out[id(t)] = (e, "rep")
            for t in el.end_tokens:
                out[id(t)] = (e, "end")
    return out


def oracle_c06(rec):
    out = []
    case = rec["case"]
    if not (getattr(case, "wp", False) or getattr(case, "cert", False)):
        return out
    inp = {"text": case.text, "history": genrun.history(rec["log"])[:80]}
    if rec["error"] is not None:
        if genrun.is_c11_draw_failure(rec["error"]):
            return out
        out.append(("certified-molecule-fails" if getattr(case, "cert", False) else "well-posed-molecule-fails", inp, f"{type(rec['error']).__name__}: {rec['error']}", None))
        return out
    s = rec["summary"]
    if s["opens"]:
        out.append(("not-fully-generated", inp, f"{len(s['opens'])} open descriptor(s) left: {[(o['s'], o['id']) for o in s['opens']]}", None))
        return out
    toks = [case.table.tokens[t] for t in s["inst_tid"]]
    where = element_of_token(case)
    # every descriptor of every residue has formed exactly one bond: bonds per attachment atom = descriptors written on it
    deg = {}
    for x, y, _ in s["bonds"]:
        deg[x] = deg.get(x, 0) + 1
        deg[y] = deg.get(y, 0) + 1
    for i, tok in enumerate(toks):
        want = {}
        for bd in tok.bond_descriptors:
            want[bd.atom_bonding_to] = want.get(bd.atom_bonding_to, 0) + 1
        for a in range(s["sizes"][i]):
            if deg.get(s["offs"][i] + a, 0) != want.get(a, 0):
                out.append(("descriptor-bond-count", inp, f"residue {i} ({tok}) atom {a}: {deg.get(s['offs'][i] + a, 0)} inter-residue bonds, {want.get(a, 0)} descriptors", None))
                return out
    # element order
    els = [where[id(t)][0] for t in toks]
    kinds = [where[id(t)][1] for t in toks]
    if any(b < a for a, b in zip(els, els[1:])):
        out.append(("element-order", inp, f"residues created for elements {els}", None))
    n_el = len(case.mol._elements)
    for e, el in enumerate(case.mol._elements):
        mine = [k for k, x in enumerate(els) if x == e]
        if isinstance(el, SmilesToken) and len(mine) != 1:
            out.append(("token-element-count", inp, f"element {e} ({el}) appears {len(mine)} times", None))
        if isinstance(el, Stochastic) and not any(kinds[k] == "rep" for k in mine):
            # a unit reached through a transition list may be an end group; at least one unit of the object is required
            if not mine:
                out.append(("object-without-unit", inp, f"element {e} contributes no residue", None))
    owner_el = [els[s["owner"][a]] if s["owner"][a] is not None else None for a in range(s["natoms"])]
    between = {}
    for x, y, _ in s["bonds"]:
        a, b = owner_el[x], owner_el[y]
        if a != b:
            key = (min(a, b), max(a, b))
            between[key] = between.get(key, 0) + 1
    for (a, b), n in between.items():
        if b != a + 1:
            out.append(("bond-between-non-adjacent-elements", inp, f"elements {a} and {b}", None))
        elif n != 1:
            out.append(("several-bonds-between-consecutive-elements", inp, f"elements {a} and {b}: {n}", None))
    for e in range(n_el - 1):
        if (e, e + 1) not in between:
            out.append(("consecutive-elements-not-bonded", inp, f"elements {e} and {e + 1}", None))
    # end groups are leaves of the residue tree
    rdeg = {}
    for u, v, _ in s["edges"]:
        rdeg[u] = rdeg.get(u, 0) + 1
        rdeg[v] = rdeg.get(v, 0) + 1
    for i, k in enumerate(kinds):
        if k == "end" and rdeg.get(i, 0) > 1:
            out.append(("end-group-not-a-leaf", inp, f"residue {i} ({toks[i]}) has {rdeg.get(i, 0)} neighbours", None))
    return out


def negative_variants(rnd, cases, n):
    """molecules broken in their closability (not necessarily rejected by the parser): exercise `wellPosed = false`"""
    out = []
    pool = [c for c in cases if c.ast is not None]
    rnd.shuffle(pool)
    for c in pool[:n]:
        t = c.text
        ops = []
        m = re.search(r";[^}]*?,", t)
        if m:
            ops.append(t[:m.start()] + ";" + t[m.end():])           # drop the first end group
        if "[]}" in t:
            ops.append(t.replace("[]}", "[<]}", 1))                  # open right end
        if "{[]" in t:
            ops.append(t.replace("{[]", "{[>]", 1))                  # left terminal without prefix
        for v in ops[:2]:
            nc = genrun.parse_case(v, "negative:" + c.archetype)
            if nc is not None:
                out.append(nc)
    return out


def main():
    ck = Check("C06")
    ck.do_build()
    rnd = random.Random(ck.seed + 6)
    quick = ck.tier == "quick"
    cases = genrun.corpus_cases() + genrun.order_terminal_cases() + genrun.zero_reserve_cases() * 3
    cases += genrun.gen_cases(rnd, 260 if quick else 6000)
    cases += negative_variants(rnd, cases, 60 if quick else 1500)
    outs = ck.driver.run([{"op": "WELLPOSED", "els": c.els} for c in cases])
    for c, o in zip(cases, outs):
        c.wp = bool(o.get("wp"))
        c.cert = bool(o.get("cert"))
        ck.count(("well-posed:" if c.wp else "not-well-posed:") + c.archetype.split(":")[0])
        ck.count("certificate:" + ("wp+cert" if c.wp and c.cert else "wp-only" if c.wp else "cert-only" if c.cert else "neither"))
    recs = genrun.run_batch(ck, cases, seeds_per_case=3 if quick else 8, what=("struct",), seed_base=ck.seed * 49979687 + 6,
                            oracles=[oracle_c06], forced=genrun.cap_targets)
    for rec in recs:
        c = rec["case"]
        s = rec["summary"]
        ck.case((c.text, tuple(genrun.history(rec["log"]))), nontrivial=c.wp or c.cert,
                sample={"text": c.text, "well_posed": c.wp, "residues": None if s is None else len(s["sizes"]), "error": None if rec["error"] is None else rec["error"].name})
        if c.archetype in ("orderterminal", "zeroreserve"):
            # closable by construction, whatever the analysis of the PARSED object says (a wrong parse must not hide a failing generation)
            if rec["error"] is not None or s is None or s["opens"]:
                ck.fail("well-posed-molecule-does-not-complete", {"text": c.text, "history": genrun.history(rec["log"])[:40]},
                        f"a molecule that is closable as written: {('raises ' + rec['error'].name) if rec['error'] is not None else 'open descriptors are left'}")
        if not c.wp:
            ck.count("not-well-posed-run:" + ("error" if rec["error"] is not None else ("complete" if s is not None and not s["opens"] else "open-left")))
    # all choice sequences of bounded well-posed instances
    bounded = [("{[][<|2|]CC[>], [<]C(N)C[>]; [<]O, [>]F []}|uniform(0, 100)|", [55.0]),
               ("C{[$][$]CC([<])[<], [>]CO[<] ; [>]N []}|uniform(0,100)|", [45.0]),
               ("O{[<][>]CC[<|2|], [>|3|]C(C)C[<] [>]}|uniform(0,90)|{[<][>]CO[<] [>]}|uniform(0, 50)|S", [45.0, 20.0])]
    for text, forced in bounded[: (2 if quick else 3)]:
        c = genrun.parse_case(text, "bounded")
        if c is None:
            continue
        o_ = ck.driver.run([{"op": "WELLPOSED", "els": c.els}])[0]
        c.wp = bool(o_.get("wp"))
        c.cert = bool(o_.get("cert"))
        n = 0
        for rec, p in genrun.enumerate_paths(c, forced, max_paths=400 if quick else 20000, seed=ck.seed):
            rec["error"] = None if rec["error"] is None else genrun.LightErr(rec["error"])
            for f in oracle_c06(rec):
                ck.fail(*f)
            n += 1
        ck.count("enumerated_paths", n)
        ck.case(("tree", text), nontrivial=c.wp, sample={"text": text, "well_posed": c.wp, "paths": n})
    ck.rule = ("one case = one real generation of a molecule whose well-posedness the model's closability analysis decided (corpus, all archetypes, and variants broken "
               "in their closability); for well-posed molecules every run must complete, leave nothing open, bond every descriptor exactly once and respect the "
               "element order; non-trivial = well-posed; distinct by (string, history); plus all choice sequences of bounded instances")
    ck.extra["assumptions"] = ["C06_certified_generates covers the molecules with a certificate (counts under certificate:*); that the wider analysis wellPosed implies "
                               "completion for every oracle is not a theorem (C06_partial): it is what this check tests"]
    ck.finish()


if __name__ == "__main__":
    main()
